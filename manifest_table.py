# property id -> manifest fields.  Properties not listed in CHECKS must be in NA.
NOTYET = "check not built yet in this round (planned, see DESIGN.md); not claimed until its check exists"
NA = {pid: NOTYET for pid in ALL}
NA["C15"] = ("absence of OS-level effects of whole commands cannot be encoded: symbolic execution stops at the C boundary of "
             "open/os/pathlib, and a file-system model only shows the model was untouched; the encodable fragments are decided under C11/C19/C17 (DESIGN.md §4)")

CHECKS["C05"] = dict(
    engine="RZ3",
    technique="SMT (z3 regular-expression theory): language inclusion between the real compiled glob regex and the specification's reference language, path length unbounded, globs enumerated to a bound",
    text="For every glob over {a . / * \\} up to length 4 (quick) / 6 (thorough) plus seeded random longer globs, z3 decides for ALL paths of ANY length that narrow-reading ⊆ compiled matcher ⊆ wide-reading, separately for LF-free and LF-containing paths, and that a multi-glob item is the union of its globs. Bounded in the glob, unbounded in the path; counterexamples are replayed through AnnotationsItem.matches before being reported.",
    note="Trusted: z3 5.1 regex solver, re._parser as definition of pattern syntax, vf/re2z3.py (validated each run on solver-produced member/non-member witnesses through the real matches()). The method matches() calls is read from its AST. The four translation defects this check found (LF artefact, escaped asterisk, star before escape, globstar swallowing '/') are repaired in /repo (fix: 8bd9f0b); no known-finding class remains, every departure from the specified language is a VIOLATION.",
)

CHECKS["C17"] = dict(
    engine="RZ3",
    technique="SMT (z3 regular-expression theory): language equivalence between python-debian's compiled dep5 matcher and the matcher of the REUSE.toml produced by the real converter, paths unbounded, dep5 globs enumerated to a bound",
    text="For every valid dep5 glob over {a . / * ? \\} up to length 4 (quick) / 5 (thorough) plus random longer ones, the real pipeline dep5 -> Copyright -> toml_from_dep5 -> ReuseTOML.from_toml is run and z3 decides, for ALL normalised project-relative paths of any length, that the dep5 matcher and the converted matcher accept the same paths; for two globs per paragraph and two paragraphs the last-match-wins attribution languages are compared the same way, and the attributed copyright/licence/precedence are compared on solver-produced witnesses through the two real reuse_info_of methods.",
    note="Trusted: z3, re._parser, vf/re2z3.py, python-debian/tomlkit executed concretely. The command body itself is explored with CrossHair over a path model whose write may fail (REUSE.toml is written before dep5 is removed; refusal without dep5). Outside: whole lint report, real OS failures. Known findings (listed, excused only inside their class and direction): the '?' wildcard, and dep5 '*/' becoming '**/', which in REUSE.toml also stands for zero directories. The doubled escaped asterisk is repaired (fix: bed545d) and the matcher's former C05 findings with it (fix: 8bd9f0b).",
)

CHECKS["C12"] = dict(
    engine="XH",
    technique="symbolic execution (CrossHair + z3) of the real filter_ignore_block and extract_reuse_info against a reference scanner, all paths confirmed within the bound",
    text="CrossHair explores every path of the real filter_ignore_block on texts assembled from START/END markers and free chunks (all shapes up to 4 segments quick / 5 thorough, chunk characters symbolic) and of extract_reuse_info on every sequence of 4 (quick) / 5 (thorough) tokens from {start, end, licence, copyright, contributor, text, newline}; 'Confirmed over all paths' means the equality with the reference holds for every value of the symbolic characters / token kinds inside that bound.",
    note="Trusted: CrossHair's str model, z3, the 12-line reference scanner. Each condition has a reachability twin (post: False) that must be violated. Licence parsing runs natively on per-path concrete strings. Outside: more segments than the bound; markers following a tag on the same line.",
)

CHECKS["C16"] = dict(
    engine="XH",
    technique="symbolic execution (CrossHair + z3): solver-driven exploration of every TOML value shape through the real from_dict/validators, and of every fault choice through the real error funnels; symbolic bytes through the real decoder (CrossHair's UTF-8 codec model)",
    text="CrossHair explores all paths of (a) the real ReuseTOML.from_dict with each key in turn taking every TOML type (nesting <= 2), (b) the real ClickObj.project with Project.from_directory raising each documented exception, (c) the real ProjectReport/ProjectSubsetReport.generate with FileReport.generate raising any of 11 exception classes per file; the postcondition is 'returns or raises a parse error naming the file' / 'click.UsageError' / 'a read-error entry and the run continues'. Counterexamples are replayed through ReuseTOML.from_toml on the tomlkit serialisation.",
    note="Extended to file content: (d) the real add_header_to_file chain on 6 content kinds x 6 unparseable expressions x 4 file types x options with open() either yielding the text or raising UnicodeDecodeError, (e) the licence-text section of the real bill_of_materials with the same fault point, (f) the real decoded_text_from_binary on every byte string up to 3 (quick) / 4 (thorough) bytes, symbolic, result must be encodable again. Five defects found by this check are repaired in /repo (fix: 453f000, 10c4144, 65bb852, 24a0118). After the solver has chosen a shape the document is concrete, so the solver's part is the exhaustive, feasibility-checked exploration of the shape space (stated bound: one malformed key at a time, nesting <= 2). Outside: third-party parsers on raw bytes. The two defects this check found (annotations not an array of tables; unhashable array item) are repaired in /repo (fix: commit); no carve-out remains.",
)

CHECKS["C04"] = dict(
    engine="XH",
    technique="symbolic execution (CrossHair + z3) of the real precedence chain on real objects against an independent model of the statement; all paths confirmed within the bound",
    text="CrossHair explores every path of the real Project.reuse_info_of -> NestedReuseTOML/ReuseTOML/ReuseDep5 chain for own information (6 kinds) x .license sibling (5 kinds) x every chain of 2 (quick) / 3 (thorough) nested REUSE.toml files, each absent or one of 12 precedence x information shapes, plus two tables in one file (last match wins, also a literal-path table before a glob table), .reuse/dep5, nested directory names that sort before/after 'REUSE.toml', and two look-ups on one Project object (no state carried over); the postcondition compares attributed copyright/licence sets, their source path and source type, and whether the file was read, with a model written from the statement. Counterexamples are replayed on a real temporary tree through Project.from_directory.",
    note="Stubs: the file reader (C02's subject), is_binary, _determine_license_path; pathlib pure-path methods run natively on concrete values. The space is a finite table; the solver's role is exhaustive, feasibility-checked path exploration. The closest[0] defect found by this check is repaired in /repo (fix: commit, recorded as fixed in known_findings.json); no carve-out remains.",
)

CHECKS["C06"] = dict(
    engine="XH+RZ3",
    technique="symbolic execution (CrossHair + z3) of the real licence-inventory pipeline against the statement's set algebra; z3 regex equivalence for the LicenseRef- pattern",
    text="CrossHair explores every path of the real pipeline LICENSES listing -> Project._find_licenses -> FileReport.generate -> ProjectReport.generate -> used/unused for 14 ways of use (alone, '+', AND, OR, WITH, parentheses, LicenseRef, malformed LicenseRef, unknown, wrong case, a repeated identifier, none) in one or two files x 7 provision forms (absent, ID.txt, ID.md, ID, sub/ID.txt, ID+.txt, with .license) of three identifiers at a time, comparing missing/unused/bad/deprecated/extension-less/used with a model of the statement; z3 decides L(_LICENSEREF_PATTERN) = LicenseRef-[A-Za-z0-9.-]+ for identifiers of any length. Counterexamples are replayed on a real temporary tree through Project.from_directory.",
    note="Stubs: reuse_info_of (returns the chosen expression), directory listing, deterministic pseudo-checksum; native pathlib / licence parsing on concrete values. Known finding: used-but-unprovided LicenseRef- reported as bad. The LicenseRef pattern accepting a trailing LF, found by this check, is repaired in /repo (fix: 4db907f). One data pass over the bundled SPDX list is reported separately and is not a solver obligation.",
)
CHECKS["C01"] = dict(
    engine="XH",
    technique="symbolic execution (CrossHair + z3) of the real lint command body and report aggregation against clauses (a)-(d) of the statement",
    text="CrossHair explores every path of the real `lint` command body (exit status) and of ProjectReport/FileReport generation for 1 and 2 covered files with symbolic facts (licence expression class, copyright present, read error) and symbolic LICENSES/ contents (three identifiers, absent / ID.txt / extension-less), and confirms exit 0 <=> clauses (a)-(d) hold and that each category names exactly the offenders the model names.",
    note="Stubs as C06. Bound: <= 2 files, representatives of each identifier class. File discovery, header reading and precedence are owned by C03/C02/C04. Known finding: unprovided LicenseRef- also listed as bad.",
)

CHECKS["C13"] = dict(
    engine="XH",
    technique="symbolic execution (CrossHair + z3): solver-driven exhaustive exploration of project states through the real formatters and the lint / lint-file command bodies, outputs parsed back and compared",
    text="For every project state in the bound (2 files x expression class x copyright x read error x LICENSES contents) CrossHair runs the real format_plain / format_json / format_lines, the real lint command body with each of --quiet/--json/--plain/--lines, and the real lint-file body for every subset F; the postcondition is that the per-category sets parsed from each format are equal to the report's, the JSON summary counts equal the sizes of the JSON's own lists, all exit statuses agree with is_compliant, and lint-file prints exactly the per-file lines of lint --lines restricted to F and exits 1 iff it printed any.",
    note="Partial: path spelling / working directory and >2 items per category are outside. After the solver fixes a state all values are concrete, so the solver contributes exhaustive feasibility-checked exploration, not reasoning about the strings themselves.",
)

CHECKS["C03"] = dict(
    engine="RZ3+XH",
    technique="SMT (z3 regular expressions): language equality between the real ignore patterns and the statement's name language, names unbounded; symbolic execution (CrossHair + z3) of the real is_path_ignored / iter_files over a file-system and VCS model",
    text="z3 decides for ALL file and directory names of any length that the union of the real ignore patterns (with .match semantics) accepts exactly the names the statement excludes (both inclusions; LF-free and LF-containing names separately). CrossHair explores every path of the real is_path_ignored for 27 names on both sides of each rule x 6 path kinds x parent x VCS answers x 3 include flags x subset membership against the statement's decision table, of the real iter_files (os.walk replaced by a pruning-aware model) over a two-level tree with symbolic kinds and VCS answers (exactly the non-excluded files without excluded ancestors are yielded), of annotate --recursive's expansion over the same model (incl. a .license sibling), and of VCSStrategyGit's reading of git's NUL-separated answers for awkward names.",
    note="PARTIAL: Git's own answer (what the external git process reports for a .gitignore) is not encodable and is outside the claim; what is decided is that for any answer of the VCS layer the selection is right. Stubs: Path model, VCS model, os.walk model. Known findings: CAL-1.0/SHL-2.1 licence-text workaround names skipped everywhere; LF artefacts. Fixed: unescaped dot in the SPDX-document pattern (b49d0bc).",
)

CHECKS["C18"] = dict(
    engine="XH",
    technique="SMT (z3 propositional): LicenseConcluded computed by the real code is equivalent to the conjunction of the file's expressions under every truth assignment; symbolic execution (CrossHair) of the real bill_of_materials against a reference tag-value reader",
    text="For ~2 800 (quick) / ~20 000 (thorough) enumerated and sampled expression sets (1-3 expressions, AND/OR nesting to depth 2-3, 'X+' and 'X WITH E' atoms) the real FileReport.generate computes LicenseConcluded and z3 decides that `conjunction != concluded` is unsatisfiable. CrossHair explores the real bill_of_materials for 1-2 files with names, copyright texts, licence lists and creator forms chosen from lists of awkward shapes and checks with a reference reader: one File section per report and no other, unique SPDXIDs matched by exactly one DESCRIBES each, fields equal to the report's, LicenseRef texts included, creator rendered.",
    note="PARTIAL: SHA-1/MD5 themselves are hashlib's contract (the chunked read around them is checked on 12 file sizes around the chunk boundaries); the covered-file set (C03) and the full tag-value grammar are outside. Names are chosen from lists because the writer on symbolic strings exceeded every path budget. SPDXID distinctness is checked concretely through the real generate on near-identical names with identical checksums.",
)

CHECKS["C14"] = dict(
    engine="RZ3+XH",
    technique="SMT (z3 regular expressions): pairwise commutation / language difference of the terminator groups of the real _END_PATTERN across hash seeds; symbolic execution (CrossHair) of report generation and REUSE.toml lookup under symbolic permutations of enumeration order",
    text="The groups of the real _END_PATTERN are harvested; z3 decides for lines of any length which pairs commute, the module is imported under 8 (quick) / 24 (thorough) PYTHONHASHSEED values and, when two pattern texts differ, z3 produces a line on which the two languages differ, which is replayed through extract_reuse_info under both seeds. CrossHair confirms over all paths that ProjectReport.generate + _find_licenses give the same normalised report for every order of 3 files and several orders of the LICENSES listing, that NestedReuseTOML gives the same result for permuted reuse_tomls (3 levels x 13 shapes), and for the root spelled '.', 'proj', '../proj', './proj/../proj' instead of absolute with nested directory names that sort before '.'.",
    note="PARTIAL: real process scheduling (mp.Pool), pickling, the per-worker dep5 re-parse, real readdir order and the working directory are OS-level and outside the claim; root spelling is covered for the REUSE.toml hierarchy only. Fixed: set-ordered _END_PATTERN (091a0b8) - the check reports it again if it returns.",
)

CHECKS["C20"] = dict(
    engine="XH+PYRE",
    technique="symbolic execution (CrossHair + z3) of the real notice builder/merger with the real copyright patterns executed by an exact regex interpreter (PYRE) on symbolic strings",
    text="For each of the 10 prefix styles x year forms x holders with one free character (ANY code point) at the start, middle or end - and two free characters at the end - CrossHair confirms over all paths that make_copyright_line's output is recognised by the first matching real pattern with exactly that prefix, year and holder, and that a holder which already is a notice comes back verbatim. For every pair of notices over 4 holders x 4 prefixes x 5 year forms, and triples of one holder, it confirms that merge_copyright_lines keeps the holder set, gives each holder one line and a year range spanning all stated years.",
    note="PYRE is validated against re on every run (repository test literals + generated lines; disagreement = harness error); fully concrete subjects go to the real compiled pattern. Year digits are concrete forms (symbolic digits exceeded every budget). Known finding: a holder ending like a comment terminator is read back truncated.",
)

CHECKS["C02"] = dict(
    engine="XH+PYRE",
    technique="symbolic execution (CrossHair + z3) of the real find_spdx_tag and copyright reader with the real tag/terminator patterns executed by an exact regex interpreter (PYRE) on lines with free characters; window/snippet rule over an in-memory stream",
    text="For each of ~60 distinct decorations harvested from the real comment-style table (single-line prefix, inline multi-line, first/middle/last line of a block, ASCII frame, tab and trailing blanks, XML attribute, reST field) and each tag kind (licence, contributor, five copyright spellings) CrossHair confirms over all paths that a value with one free character (ANY code point but line breaks; two free characters on a slice) is read back exactly. It also confirms that a tag line counts iff it lies inside the first 4096 BYTES (one- and two-byte filler) or the file holds a snippet marker (tag placed at every offset 4036..4103), that a snippet marker is found at every offset around plausible read-block boundaries (8192, 65536; thorough: seven sizes up to 1 MiB), that the other tag kinds stay empty, and that copyright notices separated by CR/VT/FF/FS/GS/RS/NEL/LS/PS are read one per line.",
    note="PYRE validated against re each run; concrete subjects go to the real compiled pattern. Known findings (carved out by predicates computed from the real terminator pattern, re-established from witnesses each run): value ending like a terminator of any style; value ending with the mirrored prefix; copyright keeps the closing frame; tag straddling the 4 KiB limit is truncated; a tag value containing 'Copyright ' / '© ' is also read as a notice. Outside: >2 free characters, invalid UTF-8, CRLF folding.",
)

CHECKS["C07"] = dict(
    engine="XH+PYRE",
    technique="symbolic execution (CrossHair + z3) of the real header builder, the real create_comment of every style and the real reader (patterns through PYRE), with a validated model of the Jinja template",
    text="For every comment style class x {single, multi} where supported, CrossHair confirms over all paths that _create_new_header either raises CommentCreateError / MissingReuseInfoError or returns a header from which the tool's own reader yields exactly the requested copyright notice, licence expressions and (when rendered) contributor, for a request whose holder or contributor carries one free character (any code point but line breaks); representative styles are also explored under eight template behaviours (default, dropping licences / copyright / contributors / everything, pre-commented, adding on one axis while dropping the other), the copyright prefixes and year forms; three REAL Jinja templates (bundled default, a project template and a pre-commented project template found through get_template) must render the requested lines verbatim for every printable ASCII character. Every entry of the extension and file-name tables is walked concretely and must map to one of the style classes covered.",
    note="The template is replaced by a Python model; its default variant is compared with the bundled default_template.jinja2 on 300 inputs per run (harness error on mismatch). ReuseInfo fields are list-backed sets so that symbolic strings are never hashed. Known findings (narrow carve-outs, re-established from witnesses on the real code each run): the post-render check uses 'and', so a template dropping exactly one kind, or a value the READER truncates (ends like a terminator / mirrored prefix), is written and reported as success; a contributor containing 'Copyright ' / '© ' is also read back as a notice.",
)

CHECKS["C08"] = dict(
    engine="XH+PYRE",
    technique="symbolic execution (CrossHair + z3): solver-driven exhaustive exploration of file-body shapes through the real header placement code and add_header_to_file, judged by a reference decomposition",
    text="For every comment style x {single, multi}, in replacing and --no-replace mode, and every body of 2 items (3 for eight representative styles; thorough 3/4) drawn from {blank, white space, code, indented code, own-style comment, foreign comment, an existing tool-written REUSE header (also with trailing blanks), shebang-like first line, a shebang-like line further down, absent} with and without final newline, CrossHair confirms that the output's non-blank lines are the input's, in order, with exactly ONE header block of the file's style inserted and at most the first REUSE comment block (minus shebang lines) removed, that the text before the header is unchanged (leading blank lines, indentation), that shebang lines stay first and that the final newline is kept. At file level (add_header_to_file over an in-memory open) it confirms for LF/CRLF/CR x BOM x final newline that one line-ending convention is kept and that the file result equals the text-level result.",
    note="After the solver fixes a body shape the text is concrete (patterns then run in the real re); the solver contributes exhaustive shape exploration. The defect this check found (a leading byte order mark did not stay first) is repaired in /repo (fix: commit); no carve-out remains. Outside: mixed line endings, longer bodies.",
)
CHECKS["C09"] = dict(
    engine="XH+PYRE",
    technique="symbolic execution (CrossHair + z3) of one annotate step (real create_header / find_and_replace_header / add_new_header / merge) from every pre-state in the bound, postcondition: declared information only grows",
    text="Histories are not explored: one inductive step. For every style x form, replace and --no-replace, with and without --merge-copyrights, and every body in the bound (including a header the tool itself wrote earlier at the top, in the middle or after a shebang - with contributors, contributor-only, with trailing blanks, or stating a spaced year range for the same holder), CrossHair confirms that the tool's own reader yields after the step a superset of what it yielded before plus the requested copyright notice, licence expression and contributor. The post-state is again a tool-written header, so the step covers sequences of such steps.",
    note="Pre-states are those the writer or the generated bodies produce; hand-edited header shapes are outside. Year-range arithmetic of merging is C20's. --skip-existing is file-level (C11).",
)
CHECKS["C10"] = dict(
    engine="XH+PYRE",
    technique="symbolic execution (CrossHair + z3): f(f(t)) == f(t) for the real find_and_replace_header over every body shape in the bound",
    text="For every style x form and every body in the bound (as C08), CrossHair confirms that applying the real find_and_replace_header (with the real create_header and reader) twice with identical arguments gives the same text as applying it once - i.e. the tool finds the header it wrote and does not stack a second one; also for requests carrying only contributors / only a licence / only a copyright notice and for an existing header of more than 4 KiB (80 holders).",
    note="--no-replace is excluded (stacking is that option's documented meaning). The defect this check found (Julia with --multi-line never found its own '#=' header and stacked headers) is repaired in /repo (fix: commit); no carve-out remains.",
)

CHECKS["C11"] = dict(
    engine="XH",
    technique="symbolic execution (CrossHair + z3) of the real annotate command body and add_header_to_file over a file-system model with header construction as a symbolic fault point",
    text="For two paths with symbolic type (recognised / unrecognised / uncommentable / binary / binary content under a recognised name), symbolic pre-existing .license sibling, symbolic outcome of header construction per path (ok, CommentCreateError, MissingReuseInfoError), --skip-existing, --no-replace, each style option and line-handling option, CrossHair confirms over all paths that a failing path and its .license sibling are unchanged (none created), every other path is processed, the exit status is 1 iff some path failed, a usage error (unrecognised type without an option; a forced --style that lacks the requested --single-line/--multi-line form) leaves the model untouched, and no exception other than the documented ones escapes the command.",
    note="Stubs: Path/open model, is_binary by extension, header builder replaced by the fault point, click's option parser. The defect this check found (the .license sibling touch()ed before the header is built stayed behind on failure) is repaired in /repo (fix: commit); the real-CLI replay of its witness is kept as a regression obligation.",
)

CHECKS["C19"] = dict(
    engine="XH",
    technique="symbolic execution (CrossHair + z3) of the real download command body and put_license_in_file over a file-system model with a per-identifier network stub",
    text="For 1-2 requested identifiers (valid, with '+', deprecated, unknown, LicenseRef- with and without '+'), symbolic network outcome per identifier, symbolic pre-state of LICENSES/ (absent / present, target pre-existing or not), --output, four --source forms and two invocation directories, CrossHair confirms over all paths that no pre-existing entry changes, new entries appear only at LICENSES/<id>.txt or --output, nothing is left behind for a failed identifier (the model makes a file exist from the moment it is opened for writing), the remaining identifiers are still handled, LicenseRef- never uses the network, and the exit status is 1 iff something failed.",
    note="Stubs: Path / open / copyfile model, download_license replaced by its documented contract (text or URLError), click.echo. Outside: real urllib behaviour, --all (its input is C06's subject), more than two identifiers.",
)
