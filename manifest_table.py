# property id -> manifest fields.  Properties not listed in CHECKS must be in NA.
NOTYET = "check not built yet in this round (planned, see DESIGN.md); not claimed until its check exists"
NA = {pid: NOTYET for pid in ALL}
NA["C15"] = ("absence of OS-level effects of whole commands cannot be encoded: symbolic execution stops at the C boundary of "
             "open/os/pathlib, and a file-system model only shows the model was untouched; the encodable fragments are decided under C11/C19/C17 (DESIGN.md §4)")

CHECKS["C05"] = dict(
    engine="RZ3",
    technique="SMT (z3 regular-expression theory): language inclusion between the real compiled glob regex and the specification's reference language, path length unbounded, globs enumerated to a bound",
    text="For every glob over {a . / * \\} up to length 4 (quick) / 6 (thorough) plus seeded random longer globs, z3 decides for ALL paths of ANY length that narrow-reading ⊆ compiled matcher ⊆ wide-reading, separately for LF-free and LF-containing paths, and that a multi-glob item is the union of its globs. Bounded in the glob, unbounded in the path; counterexamples are replayed through AnnotationsItem.matches before being reported.",
    note="Trusted: z3 5.1 regex solver, re._parser as definition of pattern syntax, vf/re2z3.py (validated each run on solver-produced member/non-member witnesses through the real matches()). The method matches() calls is read from its AST. Four known findings (LF artefact, escaped asterisk, star before escape, globstar swallowing '/') are listed in known_findings.json and excused only in their failing direction.",
)

CHECKS["C17"] = dict(
    engine="RZ3",
    technique="SMT (z3 regular-expression theory): language equivalence between python-debian's compiled dep5 matcher and the matcher of the REUSE.toml produced by the real converter, paths unbounded, dep5 globs enumerated to a bound",
    text="For every valid dep5 glob over {a . / * ? \\} up to length 4 (quick) / 5 (thorough) plus random longer ones, the real pipeline dep5 -> Copyright -> toml_from_dep5 -> ReuseTOML.from_toml is run and z3 decides, for ALL normalised project-relative paths of any length, that the dep5 matcher and the converted matcher accept the same paths; for two globs per paragraph and two paragraphs the last-match-wins attribution languages are compared the same way, and the attributed copyright/licence/precedence are compared on solver-produced witnesses through the two real reuse_info_of methods.",
    note="Trusted: z3, re._parser, vf/re2z3.py, python-debian/tomlkit executed concretely. Outside: write-then-unlink ordering of the CLI command (planned XH obligation), whole lint report. Known findings: '?' wildcard, doubled escaped asterisk, LF, and the REUSE.toml matcher's own C05 findings inherited through '*/' -> '**/'.",
)
