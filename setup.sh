#!/bin/sh
# Build the overlay venv used by every check: /venv (repo deps) + crosshair-tool + z3-solver from the offline wheelhouse.
set -e
HERE="$(cd "$(dirname "$0")" && pwd)"
V="$HERE/.venv"
if [ ! -x "$V/bin/python" ] || ! "$V/bin/python" -c "import crosshair, z3, reuse" 2>/dev/null; then
  rm -rf "$V"
  /venv/bin/python -m venv "$V"
  SP="$V/lib/python3.12/site-packages"
  echo "import site; site.addsitedir('/venv/lib/python3.12/site-packages')" > "$SP/base.pth"
  PIP_NO_INDEX=1 "$V/bin/pip" install -q --no-index --find-links /opt/veriftools/wheels crosshair-tool z3-solver >/dev/null
fi
"$V/bin/python" -c "import crosshair, z3, reuse; print('verif venv ok', z3.get_version_string())"
