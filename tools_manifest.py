#!/usr/bin/env python3
"""Regenerate MANIFEST.json from the table below (keeps it valid at all times)."""
import json, os
HERE = os.path.dirname(os.path.abspath(__file__))
ALL = [f"C{i:02d}" for i in range(1, 21)]
CHECKS = {}
NA = {}
exec(open(os.path.join(HERE, "manifest_table.py")).read())
checks = []
for pid in ALL:
    if pid in CHECKS:
        c = CHECKS[pid]
        checks.append({
            "property_id": pid,
            "quick_cmd": f"./check {pid} --tier quick",
            "thorough_cmd": f"./check {pid} --tier thorough",
            "evidence_file": f"evidence/{pid}.json",
            "replay_cmd_template": f"./check {pid} --replay {{path}}",
            "engine": c["engine"],
            "level_claimed": {"category": "model_checking", "text": c["text"], "design_ref": c.get("ref", f"DESIGN.md §3 {pid}")},
            "level_note": c["note"],
            "technique": c["technique"],
        })
na = [{"property_id": pid, "reason": NA[pid]} for pid in ALL if pid not in CHECKS]
m = {
    "version": 1,
    "setup_cmd": "./setup.sh",
    "hooks": {
        "guard": "REUSE_TOOL_VERIF",
        "enable": "no source hooks: every interception is done from the harness side by rebinding module attributes of the imported /repo/src/reuse modules; ./check exports REUSE_TOOL_VERIF=1 for uniformity only",
        "baseline_off_cmd": "cd /repo && /venv/bin/python -m pytest -ra -q -p no:cacheprovider --timeout=900 --continue-on-collection-errors",
        "source_commits": [],
        "add_only": True,
    },
    "engines": [
        {"name": "RZ3", "path": "vf/re2z3.py", "serves_properties": [p for p in ALL if p in CHECKS and "RZ3" in CHECKS[p]["engine"]], "kind_free_text": "real compiled regex -> z3 regular expression; language inclusion/equivalence queries, unbounded in the subject string"},
        {"name": "XH", "path": "vf/xh.py", "serves_properties": [p for p in ALL if p in CHECKS and "XH" in CHECKS[p]["engine"]], "kind_free_text": "CrossHair 0.0.110 symbolic execution (z3) of the real functions under PEP316 harnesses, with reachability twins"},
        {"name": "PYRE", "path": "vf/pyre.py", "serves_properties": [p for p in ALL if p in CHECKS and "PYRE" in CHECKS[p]["engine"]], "kind_free_text": "exact pure-Python interpreter of the real patterns' sre parse trees, executed symbolically by CrossHair; validated against re on every run"},
    ],
    "checks": checks,
    "not_applicable": na,
    "notes": "Family: solver-based checking of the real code. Exit 0 = nothing explored failed (listed known findings print KNOWN-FINDING); exit 1 = replayed unlisted violation; exit 3 = harness error. Inconclusive obligations are printed and never counted as discharged. See DESIGN.md.",
}
json.dump(m, open(os.path.join(HERE, "MANIFEST.json"), "w"), indent=1)
print("checks:", [c["property_id"] for c in checks], "na:", [n["property_id"] for n in na])
