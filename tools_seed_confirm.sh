#!/bin/sh
# tools_seed_confirm.sh <PROP> <N> : confirm a sub-agent's seeded change in a fresh scratch worktree and file it under seeded/
P="$1"; N="$2"; O="${3:-$2}"; SRC="/tmp/seed-$P"; WT="/tmp/confwt-$P-$N-$$"; OUT="/verif/seeded/$P-m$O"
git -C /repo worktree add -q --detach "$WT" HEAD || exit 2
run_demo() { (cd "$WT" && PYTHONPATH="$WT/src" timeout 300 /venv/bin/python "$SRC/m${N}_demo.py" >/tmp/demo-$$.out 2>&1; echo $?); }
clean=$(run_demo)
git -C "$WT" apply "$SRC/m$N.diff" || { echo "PATCH DOES NOT APPLY"; git -C /repo worktree remove --force "$WT"; exit 2; }
broken=$(run_demo)
suite=$(cd "$WT" && PYTHONPATH="$WT/src" /venv/bin/python -m pytest -q -p no:cacheprovider --timeout=900 2>&1 | tail -1)
git -C /repo worktree remove --force "$WT"
echo "$P m$N: demo clean=$clean with-change=$broken suite: $suite"
case "$suite" in *"9 failed, 556 passed"*) ok=1;; *) ok=0;; esac
if [ "$clean" = "0" ] && [ "$broken" != "0" ] && [ "$ok" = "1" ]; then
  mkdir -p "$OUT"; cp "$SRC/m$N.diff" "$OUT/patch.diff"; cp "$SRC/m${N}_demo.py" "$OUT/demo.py"
  python3 - "$SRC/m${N}_meta.json" "$OUT/meta.json" "$suite" <<'PY'
import json,sys
m=json.load(open(sys.argv[1]))
m["confirmed"]={"demo_on_clean_tree":"exit 0","demo_with_change":"exit != 0","test_suite_with_change":sys.argv[3].strip(),"how":"tools_seed_confirm.sh in a scratch worktree of /repo HEAD (PYTHONPATH=<worktree>/src /venv/bin/python)"}
json.dump(m,open(sys.argv[2],"w"),indent=1)
PY
  echo "  -> kept in $OUT"
else
  echo "  -> NOT kept"; tail -3 /tmp/demo-$$.out
fi
rm -f /tmp/demo-$$.out
