#!/bin/sh
# tools_seed_eval.sh <PROP> <diff> [tier]  - apply a seeded change to a scratch worktree and run the check against it
# (VERIF_REPO points the machinery at the worktree; /repo itself is not touched)
P="$1"; D="$2"; T="${3:-quick}"
WT="/tmp/evalwt-$P-$$"
git -C /repo worktree add -q --detach "$WT" HEAD || exit 2
git -C "$WT" apply "$D" || { echo "PATCH DOES NOT APPLY"; git -C /repo worktree remove --force "$WT"; exit 2; }
cd /verif && VERIF_REPO="$WT" ./check "$P" --tier "$T" > "/verif/.work/seedeval-$P-$(basename $D).log" 2>&1
rc=$?
grep -E "^VIOLATION|^SUMMARY|^HARNESS" "/verif/.work/seedeval-$P-$(basename $D).log" | cut -c1-200 | head -6
echo "exit=$rc"
git -C /repo worktree remove --force "$WT"
