#!/bin/sh
# tools_seed_reconfirm.sh <seeded-dir-name>: reconfirm a filed seed against current /repo HEAD (demo clean / with change, suite)
S="$1"; WT="/tmp/reconf-$S-$$"
git -C /repo worktree add -q --detach "$WT" HEAD || exit 2
d() { (cd "$WT" && PYTHONPATH="$WT/src" timeout 300 /venv/bin/python "/verif/seeded/$S/demo.py" >/tmp/rc-$$.out 2>&1; echo $?); }
clean=$(d); git -C "$WT" apply "/verif/seeded/$S/patch.diff" || { echo "$S: PATCH DOES NOT APPLY"; git -C /repo worktree remove --force "$WT"; exit 2; }
broken=$(d); suite=$(cd "$WT" && PYTHONPATH="$WT/src" nice -n 10 /venv/bin/python -m pytest -q -p no:cacheprovider --timeout=900 2>&1 | tail -1)
git -C /repo worktree remove --force "$WT"; echo "$S: demo clean=$clean with-change=$broken suite: $suite"; rm -f /tmp/rc-$$.out
