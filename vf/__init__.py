"""Solver-based checking of fsfe/reuse-tool: see /verif/DESIGN.md."""
