"""Run context: obligations, verdict policy, known findings, evidence writer.

Verdict policy (DESIGN §2.3):
  exit 0  every explored obligation held (or is a listed known finding)
  exit 1  a replayed, unlisted violation  -> "VIOLATION property=<id> replay=<path>"
  exit 3  harness error (non-replaying counterexample, translator disagreement,
          solver error)                    -> "HARNESS-ERROR ..."
Inconclusive obligations are never counted as discharged.
"""
import hashlib
import json
import os
import sys
import time

ROOT = os.path.dirname(os.path.dirname(os.path.abspath(__file__)))
KNOWN_FILE = os.path.join(ROOT, "known_findings.json")


class HarnessError(Exception):
    pass


def load_known():
    try:
        with open(KNOWN_FILE) as fp:
            return json.load(fp)
    except FileNotFoundError:
        return {"findings": [], "fixed": []}


class Ctx:
    def __init__(self, pid, tier, seed):
        self.pid = pid
        self.tier = tier
        self.seed = seed
        self.t0 = time.time()
        self.obs = []
        self.new_violations = []
        self.known_hits = {}
        self.harness_errors = []
        self.samples = []
        self.assumptions = []
        self.functions_encoded = []
        self.bounds = {}
        self.outside = []
        self.stubs = []
        self.engines = {}
        self.extra = {}
        self.solver_time = 0.0
        self.queries = 0
        known = load_known()
        self.known = {
            f["key"]: f for f in known.get("findings", []) if f["property"] == pid
        }
        self.workdir = os.path.join(ROOT, ".work", f"{pid}-{tier}-{os.getpid()}")
        os.makedirs(self.workdir, exist_ok=True)

    # ------------------------------------------------------------------ obligations
    def ob(self, name, engine, verdict, secs=0.0, detail=None, queries=1, sample=None):
        """Record one obligation. verdict in holds|violated|known|inconclusive."""
        assert verdict in ("holds", "violated", "known", "inconclusive"), verdict
        rec = {"name": name, "engine": engine, "verdict": verdict, "secs": round(secs, 3)}
        if detail is not None:
            rec["detail"] = detail
        self.obs.append(rec)
        self.solver_time += secs
        self.queries += queries
        if verdict == "inconclusive":
            print(f"INCONCLUSIVE property={self.pid} obligation={name} {detail or ''}".rstrip(), flush=True)
        if sample is not None and len(self.samples) < 12:
            self.samples.append(sample)

    def violation(self, key, what, replay):
        """A violation that already replayed against the real code.
        Listed known finding -> recorded as such; otherwise a new violation."""
        if key in self.known:
            self.known_hits.setdefault(key, what)
            return "known"
        # one VIOLATION line per distinct key
        for v in self.new_violations:
            if v["key"] == key:
                return "violated"
        d = os.path.join(ROOT, "replays", self.pid)
        os.makedirs(d, exist_ok=True)
        h = hashlib.sha256(json.dumps([key, replay], sort_keys=True, default=str).encode()).hexdigest()[:12]
        path = os.path.join(d, f"{h}.json")
        with open(path, "w") as fp:
            json.dump({"property": self.pid, "key": key, "what": what, "replay": replay}, fp, indent=1, default=str)
        self.new_violations.append({"key": key, "what": what, "replay": path})
        print(f"VIOLATION property={self.pid} replay={path}", flush=True)
        print(f"  key={key} :: {what}", flush=True)
        return "violated"

    def harness_error(self, msg):
        self.harness_errors.append(msg)
        print(f"HARNESS-ERROR property={self.pid} {msg}", flush=True)

    # ------------------------------------------------------------------ known findings
    def reestablish_known(self, replay_fn):
        """Replay every listed finding's witness on the real code (DESIGN §2.8)."""
        for key, f in sorted(self.known.items()):
            try:
                still = replay_fn(f.get("witness"))
            except Exception as e:  # noqa
                self.harness_error(f"known-finding witness replay crashed key={key}: {e!r}")
                continue
            if still:
                self.known_hits.setdefault(key, f["what"])
            else:
                print(f"STALE-FINDING property={self.pid} key={key} (witness no longer fails)", flush=True)

    # ------------------------------------------------------------------ finish
    def finish(self, level="model_checking", rule="", explanation="", exhaustive=False, checker_cmd=None, trusted_base=None):
        for key, what in sorted(self.known_hits.items()):
            print(f"KNOWN-FINDING: property={self.pid} key={key} {what}", flush=True)
        n_ob = len(self.obs)
        n_holds = sum(1 for o in self.obs if o["verdict"] == "holds")
        n_inc = [o["name"] for o in self.obs if o["verdict"] == "inconclusive"]
        n_known = sum(1 for o in self.obs if o["verdict"] == "known")
        n_viol = sum(1 for o in self.obs if o["verdict"] == "violated")
        distinct = len({o["name"] for o in self.obs if o["verdict"] in ("holds", "known", "violated")})
        by_engine = {}
        for o in self.obs:
            e = by_engine.setdefault(o["engine"], {"obligations": 0, "holds": 0, "secs": 0.0})
            e["obligations"] += 1
            e["holds"] += o["verdict"] == "holds"
            e["secs"] = round(e["secs"] + o["secs"], 3)
        cov = {
            "evaluations": max(self.queries, 0),
            "distinct_nontrivial": distinct,
            "rule": rule
            or "one obligation = one solver-decided statement over the symbolic inputs named in 'bounds'; distinct by obligation name; non-trivial = its reachability/vacuity witness succeeded and the solver returned a definite verdict",
            "samples": self.samples or [o for o in self.obs[:5]],
            "obligations": n_ob,
            "discharged": n_holds,
            "known_finding_obligations": n_known,
            "violated_obligations": n_viol,
            "inconclusive": n_inc[:50],
            "inconclusive_count": len(n_inc),
            "exhaustive": bool(exhaustive and not n_inc),
            "checker_cmd": checker_cmd or f"./check {self.pid} --tier {self.tier}",
            "trusted_base": trusted_base or [],
            "functions_encoded": self.functions_encoded,
            "bounds": self.bounds,
            "outside_the_claim": self.outside,
            "stubs": self.stubs,
            "queries": self.queries,
            "solver_time_s": round(self.solver_time, 2),
            "by_engine": by_engine,
            "engine_versions": self.engines,
            "known_findings_reestablished": sorted(self.known_hits),
            "explanation": explanation,
            "slowest_obligations": [
                {"name": o["name"], "secs": o["secs"], "verdict": o["verdict"]}
                for o in sorted(self.obs, key=lambda o: -o["secs"])[:8]
            ],
        }
        cov.update(self.extra)
        ev = {
            "property_id": self.pid,
            "tier": self.tier,
            "seed": self.seed,
            "level": level,
            "coverage": cov,
            "assumptions": self.assumptions,
            "wall_s": round(time.time() - self.t0, 2),
            "violations": len(self.new_violations),
        }
        # runs against another checkout (VERIF_REPO, used to try the checks on seeded changes) must not replace the
        # evidence of /repo itself: they write to a scratch directory instead
        evdir = os.path.join(ROOT, ".work", "evidence-other-checkout") if os.environ.get("VERIF_REPO") else os.path.join(ROOT, "evidence")
        os.makedirs(evdir, exist_ok=True)
        path = os.path.join(evdir, f"{self.pid}.json")
        with open(path, "w") as fp:
            json.dump(ev, fp, indent=1, default=str)
            fp.write("\n")
        # clean scratch
        import shutil

        shutil.rmtree(self.workdir, ignore_errors=True)
        print(
            f"SUMMARY property={self.pid} tier={self.tier} obligations={n_ob} holds={n_holds} known={n_known} "
            f"violated={n_viol} inconclusive={len(n_inc)} queries={self.queries} wall={ev['wall_s']}s",
            flush=True,
        )
        if self.new_violations:
            return 1
        if self.harness_errors:
            return 3
        return 0


def engine_versions():
    import z3

    v = {"z3": z3.get_version_string(), "python": sys.version.split()[0]}
    try:
        import crosshair

        v["crosshair"] = getattr(crosshair, "__version__", "0.0.110")
    except Exception:  # noqa
        pass
    return v
