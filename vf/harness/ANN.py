"""C11 harness: a failed annotation leaves the tree as it was and shows in the exit status.

Real code: the `annotate` command body (all_paths, verify_paths_comment_style,
verify_paths_line_handling, the per-path loop with is_binary / is_uncommentable / force_dot_license /
touch, exit computation) and _annotate.add_header_to_file (style selection, .license fallback, read,
skip_existing, try/except around header construction, write-back).
Environment model: a dict-backed file system (Path + open); header construction is a fault point:
per path it succeeds or raises CommentCreateError / MissingReuseInfoError."""
import io
from pathlib import PosixPath

import click

from vf.harness.common import PARAMS, NativeLicensing, nativize_pathlib

import reuse._annotate as an
import reuse._util as ut
import reuse.cli.annotate as ca
import reuse.extract as ex
from reuse.exceptions import CommentCreateError, MissingReuseInfoError

nativize_pathlib()
ex._LICENSING = NativeLicensing(ex._LICENSING)

NPATHS = int(PARAMS.get("npaths", 2))
EXTS = [".py", ".xyz", ".json", ".png", ".c"]  # recognised, unrecognised, uncommentable, binary, binary content under a recognised name
OUTCOMES = ["ok", "CommentCreateError", "MissingReuseInfoError"]
FORCED = PARAMS.get("forced_style", "python")  # the --style value when MODE == "style"
MODE = PARAMS.get("mode", "none")  # which of the mutually exclusive style options is given
# none | style | force_dot_license | fallback_dot_license | skip_unrecognised
LINES = PARAMS.get("lines", "none")  # none | single | multi
OUTS_ALLOWED = PARAMS.get("outcomes", [0, 1, 2])


class FS:
    files = {}
    touched = []


class FakePath(PosixPath):
    def is_file(self):
        return str(self) in FS.files

    def exists(self):
        return str(self) in FS.files

    def is_dir(self):
        return False

    def resolve(self, strict=False):
        return self

    def touch(self, mode=0o666, exist_ok=True):
        FS.touched.append(str(self))
        FS.files.setdefault(str(self), "")

    def unlink(self, missing_ok=False):
        if str(self) not in FS.files:
            if missing_ok:
                return
            raise FileNotFoundError(2, "no such file", str(self))
        del FS.files[str(self)]


def fs_open(path, mode="r", encoding=None, newline=None):
    p = str(path)
    if "r" in mode:
        if p not in FS.files:
            raise FileNotFoundError(2, "no such file", p)
        return io.StringIO(FS.files[p])

    class W(io.StringIO):
        def close(self2):
            FS.files[p] = self2.getvalue()
            super().close()

        def __exit__(self2, *a):
            self2.close()
            return False

    return W()


class _Obj:
    class project:
        root = FakePath("/proj")


def _pick_from(i, allowed):
    for v in allowed:
        if i == v:
            return v
    return allowed[0]


def _b(x):
    return True if x else False


def run_annotate(e0, o0, s0, e1, o1, s1, skip_existing, no_replace):
    specs = []
    for i, (e, o, s) in enumerate(((e0, o0, s0), (e1, o1, s1))[:NPATHS]):
        if i == 0 and "first_ext" in PARAMS:
            ext = EXTS[PARAMS["first_ext"]]
        else:
            ext = EXTS[_pick_from(e, [0, 1, 2, 3, 4])]
        specs.append((ext, OUTCOMES[_pick_from(o, OUTS_ALLOWED)], _b(s)))
    FS.files = {}
    FS.touched = []
    paths = []
    outcome_of = {}
    for i, (ext, outcome, sibling) in enumerate(specs):
        p = f"/proj/src/f{i}{ext}"
        FS.files[p] = "\x89PNG\x00" if ext == ".png" else ("rec\x00\x00ord\n" if ext == ".c" else "body\n")
        if sibling:
            FS.files[p + ".license"] = "SPDX-FileCopyrightText: 2019 Old\n\nSPDX-License-Identifier: 0BSD\n"
        paths.append(FakePath(p))
        outcome_of[p] = outcome
        outcome_of[p + ".license"] = outcome
    before = dict(FS.files)

    def build(text, reuse_info, **kw):
        raise AssertionError("replaced below")

    def make_builder(name):
        def builder(text, reuse_info, template=None, template_is_commented=False, style=None, force_multi=False, merge_copyrights=False):
            cur = builder.current
            oc = outcome_of.get(cur, "ok")
            if oc == "CommentCreateError":
                raise CommentCreateError("'Jane {Doe #}' contains a premature comment delimiter")
            if oc == "MissingReuseInfoError":
                raise MissingReuseInfoError()
            return "HEADER\n" + text

        return builder

    far = make_builder("find_and_replace_header")
    anh = make_builder("add_new_header")
    real_add = an.add_header_to_file

    def tracking_add(path, **kw):
        far.current = anh.current = str(path)
        # add_header_to_file may redirect to the .license file itself (fallback): follow it
        return real_add(path=path, **kw)

    saved = (ca.Path, ut.Path, ca.is_binary, an.find_and_replace_header, an.add_new_header, ca.add_header_to_file, getattr(an, "open", None))
    ca.Path = FakePath
    ut.Path = FakePath
    ca.is_binary = lambda p: str(p).endswith((".png", ".c"))
    an.find_and_replace_header = far
    an.add_new_header = anh
    ca.add_header_to_file = tracking_add
    an.open = fs_open
    out = io.StringIO()
    import sys as _sys

    saved_stdout = _sys.stdout
    _sys.stdout = out
    code = "returned"
    try:
        try:
            cb = ca.annotate.callback
            cb = getattr(cb, "__wrapped__", cb)
            cb(
                _Obj,
                ("Jane Doe",),
                (ex._LICENSING.parse("MIT"),),
                (),
                (),
                FORCED if MODE == "style" else None,
                None,
                None,
                True,
                False,
                LINES == "single",
                LINES == "multi",
                False,
                _b(no_replace),
                MODE == "force_dot_license",
                MODE == "fallback_dot_license",
                MODE == "skip_unrecognised",
                _b(skip_existing),
                paths,
            )
        except SystemExit as e:
            code = e.code
        except click.UsageError:
            code = "usage"
        except Exception as e:  # noqa - anything else escaping the command is a crash for the user
            code = f"escaped:{type(e).__name__}"
    finally:
        _sys.stdout = saved_stdout
        ca.Path, ut.Path, ca.is_binary, an.find_and_replace_header, an.add_new_header, ca.add_header_to_file = saved[:6]
        if saved[6] is None:
            del an.open
        else:
            an.open = saved[6]
    return specs, before, dict(FS.files), code


def story(*a):
    specs, before, after, code = run_annotate(*a)
    skip_existing = _b(a[6])
    # ---- the statement's expectations
    usage = False
    if MODE == "none" and any(ext == ".xyz" and not sib for ext, _o, sib in specs):
        usage = True  # unrecognised type and no option chosen -> usage error before anything is touched
    if LINES != "none":
        # --single-line / --multi-line must be supported by the style that will be USED for each path:
        # the forced one if --style is given, else the one the (possibly .license) path maps to
        import reuse.comment as _cm

        for ext, _o, sib in specs:
            if MODE == "style":
                st = _cm.NAME_STYLE_MAP[FORCED]
            elif sib:
                st = _cm.EmptyCommentStyle
            else:
                st = {".py": _cm.PythonCommentStyle, ".xyz": None, ".json": _cm.UncommentableCommentStyle, ".png": None, ".c": _cm.get_comment_style("x.c")}[ext]
                if ext == ".png":
                    st = _cm.get_comment_style("x.png")
            if st is None:
                continue
            if LINES == "single" and not st.can_handle_single():
                usage = True
            if LINES == "multi" and not st.can_handle_multi():
                usage = True
    if isinstance(code, str) and code.startswith("escaped:"):
        return f"the command ended in an unhandled {code[8:]}", specs, before, after, code
    if usage or code == "usage":
        if before != after:
            return "a usage error was raised after the tree had been touched", specs, before, after, code
        if usage and code != "usage":
            return "missing usage error for an unrecognised file type", specs, before, after, code
        return None, specs, before, after, code
    failures = 0
    for i, (ext, outcome, sibling) in enumerate(specs):
        p = f"/proj/src/f{i}{ext}"
        lic = p + ".license"
        uses_license = ext in (".json", ".png", ".c") or MODE == "force_dot_license" or (ext == ".xyz" and MODE == "fallback_dot_license") or sibling
        # (an existing .license sibling is what all_paths hands on instead of the file)
        target = lic if uses_license else p
        skipped = ext == ".xyz" and MODE == "skip_unrecognised" and not sibling and False
        if ext == ".xyz" and MODE == "skip_unrecognised" and target == p:
            # skipped: untouched
            if after.get(p) != before.get(p) or after.get(lic) != before.get(lic):
                return f"skipped file {p} was touched", specs, before, after, code
            continue
        already = "SPDX-" in before.get(target, "")
        if skip_existing and already:
            if after.get(p) != before.get(p) or after.get(lic) != before.get(lic):
                return f"--skip-existing file {target} was changed", specs, before, after, code
            continue
        if outcome != "ok":
            failures += 1
            if after.get(p) != before.get(p):
                return f"failed annotation changed {p}", specs, before, after, code
            if after.get(lic) != before.get(lic):
                return f"failed annotation left a changed or new {lic}", specs, before, after, code
        else:
            if not after.get(target, "").startswith("HEADER\n"):
                return f"{target} was not processed although an earlier/later path failed or nothing failed", specs, before, after, code
            other = p if target == lic else lic
            if after.get(other) != before.get(other):
                return f"{other} changed although the header went to {target}", specs, before, after, code
    want = 1 if failures else 0
    if code != want:
        return f"exit status {code}, expected {want}", specs, before, after, code
    return None, specs, before, after, code


CARVE = set(PARAMS.get("carve", []))


def known_key(why):
    if why and "left a changed or new" in why:
        return "license-sibling-created-before-failure"
    return None


def _mem(x, allowed):
    for v in allowed:
        if x == v:
            return True
    return False


def _ann(e0: int, o0: int, s0: bool, e1: int, o1: int, s1: bool, skip_existing: bool, no_replace: bool) -> bool:
    """
    pre: (e0 == 0 if "first_ext" in PARAMS else _mem(e0, [0, 1, 2, 3, 4])) and _mem(o0, OUTS_ALLOWED) and (_mem(e1, [0, 1, 2, 3, 4]) and _mem(o1, OUTS_ALLOWED) if NPATHS > 1 else (e1 == 0 and o1 == 0)) and (no_replace == False or not PARAMS.get("fix_replace"))
    post: _
    """
    why = story(e0, o0, s0, e1, o1, s1, skip_existing, no_replace)[0]
    return why is None or known_key(why) in CARVE


def _ann_reach(e0: int, o0: int, s0: bool, e1: int, o1: int, s1: bool, skip_existing: bool, no_replace: bool) -> bool:
    """
    pre: (e0 == 0 if "first_ext" in PARAMS else _mem(e0, [0, 1, 2, 3, 4])) and _mem(o0, OUTS_ALLOWED) and (_mem(e1, [0, 1, 2, 3, 4]) and _mem(o1, OUTS_ALLOWED) if NPATHS > 1 else (e1 == 0 and o1 == 0)) and (no_replace == False or not PARAMS.get("fix_replace"))
    post: False
    """
    return story(e0, o0, s0, e1, o1, s1, skip_existing, no_replace)[0] is None


def explain_ann(*a):
    why, specs, before, after, code = story(*a)
    return {"mode": MODE, "lines": LINES, "paths": specs, "skip_existing": bool(a[6]), "no_replace": bool(a[7]), "before": before, "after": after, "exit": code, "why": why, "known_key": known_key(why)}


EXPLAIN = {"_ann": explain_ann}
