"""C02 harness: licence, copyright and contributor tags are read exactly, in any comment syntax.

Real code: extract.find_spdx_tag (strip + mirrored-frame logic) and the real tag / copyright patterns
incl. _END_PATTERN, interpreted by PYRE on lines with free characters; extract.reuse_info_of_file's
4 KiB window over an in-memory stream."""
import io
import re as _re

from vf.harness.common import PARAMS, NativeLicensing
from vf.pyre import PyRe

import reuse.extract as ex

REAL = {"lic": ex._LICENSE_IDENTIFIER_PATTERN, "con": ex._CONTRIBUTOR_PATTERN}
PY = {k: PyRe(v) for k, v in REAL.items()}
PY_COPY = [PyRe(p) for p in ex._COPYRIGHT_PATTERNS]
END_ONLY = PyRe(_re.compile(ex._END_PATTERN))  # the real terminator pattern alone (for the carve-out predicate)

KIND = PARAMS.get("kind", "con")  # lic | con | cop
LEFT = PARAMS.get("left", "# ")
RIGHT = PARAMS.get("right", "")
CARRIER = PARAMS.get("carrier", "Jane Doe")
HOLE = PARAMS.get("hole", "end")
NFREE = int(PARAMS.get("nfree", 1))
SEP = PARAMS.get("sep", " ")
CARVE = set(PARAMS.get("carve", []))
TAGS = {"lic": "SPDX-License-Identifier:", "con": "SPDX-FileContributor:", "cop": PARAMS.get("cop_tag", "SPDX-FileCopyrightText:")}


def _is_space_cp(c):
    return (c == 32) | ((c >= 9) & (c <= 13)) | ((c >= 28) & (c <= 31)) | (c == 133) | (c == 160) | (c == 5760) | ((c >= 8192) & (c <= 8202)) | (c == 8232) | (c == 8233) | (c == 8239) | (c == 8287) | (c == 12288)


def _is_linebreak_cp(c):
    # str.splitlines() boundaries: a value containing one is not a single line
    return (c == 10) | (c == 11) | (c == 12) | (c == 13) | ((c >= 28) & (c <= 30)) | (c == 133) | (c == 8232) | (c == 8233)


def value_of(c0, c1):
    free = chr(c0) + (chr(c1) if NFREE == 2 else "")
    if HOLE == "start":
        return free + CARRIER
    if HOLE == "mid":
        k = len(CARRIER) // 2
        return CARRIER[:k] + free + CARRIER[k:]
    return CARRIER + free


def _pre(c0, c1):
    lo, hi = PARAMS.get("c0_range", [0, 0x110000])
    if not (lo <= c0 < hi) or (0xD800 <= c0 <= 0xDFFF):
        return False
    if NFREE == 2:
        if not (0 <= c1 < 0x110000) or (0xD800 <= c1 <= 0xDFFF):
            return False
    elif c1 != 0:
        return False
    # value grammar: one line, stripped
    if _is_linebreak_cp(c0) or (NFREE == 2 and _is_linebreak_cp(c1)):
        return False
    if HOLE == "start" and _is_space_cp(c0):
        return False
    if HOLE == "end" and _is_space_cp(c1 if NFREE == 2 else c0):
        return False
    return True


def line_of(value):
    return LEFT + TAGS[KIND] + SEP + value + RIGHT


def read(line):
    """What the real reader yields for this line (list of values / notices)."""
    if KIND in ("lic", "con"):
        return list(ex.find_spdx_tag(line, PY[KIND]))
    out = []
    for ln in line.splitlines():
        for p in PY_COPY:
            m = p.search(ln)
            if m is not None:
                out.append(m.groupdict()["copyright"].strip())
                break
    return out


def known_key(value):
    """Carve-out predicates for the two listed findings (DESIGN §2.8); computed from the same real
    tables the code uses."""
    rest = value + RIGHT
    m = END_ONLY.search(rest)
    if m is not None and m.start() < len(value):
        return "value-ends-like-terminator"
    if KIND in ("lic", "con"):
        pre = LEFT.strip()
        if pre and value.endswith(pre[::-1]):
            return "value-ends-with-mirrored-prefix"
    if KIND in ("lic", "con"):
        for p in PY_COPY:
            if p.search(value + RIGHT) is not None:
                return "tag-value-read-as-copyright"
    if KIND == "cop" and RIGHT.strip() and END_ONLY.fullmatch(RIGHT.strip()) is None:
        # right-hand decoration that is no terminator (the mirrored frame '*|'): only the tag patterns
        # get the mirrored-prefix treatment, copyright lines keep it
        return "copyright-keeps-frame-suffix"
    return None


def story(c0, c1):
    value = value_of(c0, c1)
    line = line_of(value)
    got = read(line)
    want = [(TAGS[KIND] + " " + value) if KIND == "cop" else value]
    ok = len(got) == 1 and got[0] == want[0]
    if ok and KIND in ("lic", "con"):
        # "... and the other kinds are empty": the line must not ALSO be read as a copyright notice
        for p in PY_COPY:
            m = p.search(line)
            if m is not None:
                return False, value, line, got + ["(also read as copyright notice)"], want
    return ok, value, line, got, want


def _body(c0, c1):
    ok, value, line, got, want = story(c0, c1)
    if ok:
        return True
    return known_key(value) in CARVE


def _tag(c0: int, c1: int) -> bool:
    """
    pre: _pre(c0, c1)
    post: _
    """
    return _body(c0, c1)


def _tag_reach(c0: int, c1: int) -> bool:
    """
    pre: _pre(c0, c1)
    post: False
    """
    return _body(c0, c1)


def explain_tag(c0, c1):
    ok, value, line, got, want = story(c0, c1)
    return {"kind": KIND, "line": line, "value": value, "got": got, "expected": want, "known_key": known_key(value)}


# ------------------------------------------------------------------ 4 KiB window / snippet marker
ex._LICENSING = NativeLicensing(ex._LICENSING)
TAGLINE = "# SPDX-License-Identifier: GPL-3.0-or-later\n"


class FakeFilePath:
    """Path-like whose open('rb') yields an in-memory stream."""

    def __init__(self, data, name="/proj/src/f.py"):
        self._data = data
        self._name = name
        self.suffix = ".py"

    def open(self, mode="rb"):
        return io.BytesIO(self._data)

    def __str__(self):
        return self._name

    def __fspath__(self):
        return self._name


def marker_story(pos):
    """A file > 8 KiB whose only licence tag is far beyond the first 4 KiB and whose snippet marker starts at
    byte `pos` (around a multiple of 4096): the marker must be seen wherever it lies, so the tag counts."""
    base = int(PARAMS.get("marker_base", 8192))
    k = None
    for v in range(base - 24, base + 6):
        if pos == v:
            k = v
    if k is None:
        k = base
    line = "# " + "y" * 61 + "\n"
    filler = line * (k // 64) + "#" * (k % 64)
    body = filler + " SPDX-SnippetBegin\n" + TAGLINE + "# SPDX-SnippetEnd\n"
    data = body.encode("utf-8")
    saved = (ex.Path, ex.relative_from_root)
    ex.Path = lambda p: p
    ex.relative_from_root = lambda p, root: _Rel(str(p))
    try:
        info = ex.reuse_info_of_file(FakeFilePath(data), FakeFilePath(data), "/proj")
    finally:
        ex.Path, ex.relative_from_root = saved
    got = sorted(str(e) for e in info.spdx_expressions)
    return got == ["GPL-3.0-or-later"], {"marker_at": data.index(b"SPDX-SnippetBegin"), "size": len(data), "got": got, "expected": ["GPL-3.0-or-later"]}


def _marker(pos: int) -> bool:
    """
    pre: int(PARAMS.get("marker_base", 8192)) - 24 <= pos < int(PARAMS.get("marker_base", 8192)) + 6
    post: _
    """
    return marker_story(pos)[0]


def _marker_reach(pos: int) -> bool:
    """
    pre: int(PARAMS.get("marker_base", 8192)) - 24 <= pos < int(PARAMS.get("marker_base", 8192)) + 6
    post: False
    """
    return marker_story(pos)[0]


def explain_marker(pos):
    return marker_story(pos)[1]


def window_story(off, snippet, after, wide=False):
    """A file: filler (off bytes of comment text), the tag line, more filler; optionally a snippet
    marker somewhere after.  off is concretised by branching (bytes objects are C-level).
    wide: the filler holds two-byte characters, so byte offsets and character offsets differ."""
    k = None
    for v in range(4096 - 60, 4096 + 8):
        if off == v:
            k = v
    if k is None:
        k = 0
    row = ("# " + "é" * 30 + "x\n") if wide else ("# " + "x" * 61 + "\n")  # 64 bytes either way
    filler = row * (k // 64) + "#" * (k % 64 - 1) + ("\n" if k % 64 else "")
    if k % 64 == 0:
        filler = row * (k // 64)
    body = filler + TAGLINE + "# tail\n" * 3
    if snippet:
        body += "# SPDX-SnippetBegin\n" if after else ""
        if not after:
            body = "# SPDX-SnippetBegin\n" + body
            k += len("# SPDX-SnippetBegin\n")
    data = body.encode("utf-8")
    saved = (ex.Path, ex.relative_from_root)
    ex.Path = lambda p: p
    ex.relative_from_root = lambda p, root: _Rel(str(p))
    try:
        info = ex.reuse_info_of_file(FakeFilePath(data), FakeFilePath(data), "/proj")
    finally:
        ex.Path, ex.relative_from_root = saved
    got = sorted(str(e) for e in info.spdx_expressions)
    start = data.index(TAGLINE.encode())
    end = start + len(TAGLINE) - 1  # without the final LF
    if snippet or end <= 4096:
        want = [["GPL-3.0-or-later"]]
    elif start >= 4096:
        want = [[]]
    else:
        want = [[], ["GPL-3.0-or-later"]]  # the tag straddles the boundary: either not seen or seen exactly
    return got in want, {"offset_of_tag": start, "tag_end": end, "snippet": bool(snippet), "got": got, "acceptable": want}


class _Rel:
    def __init__(self, s):
        self.s = s

    def as_posix(self):
        return self.s


def _win(off: int, snippet: bool, after: bool, wide: bool) -> bool:
    """
    pre: 4096 - 60 <= off < 4096 + 8
    post: _
    """
    ok, d = window_story(off, snippet, after, True if wide else False)
    return ok or ("tag-straddles-4KiB" in CARVE and d["offset_of_tag"] < 4096 < d["tag_end"])


def _win_reach(off: int, snippet: bool, after: bool, wide: bool) -> bool:
    """
    pre: 4096 - 60 <= off < 4096 + 8
    post: False
    """
    return window_story(off, snippet, after, True if wide else False)[0]


def explain_win(off, snippet, after, wide):
    d = window_story(off, snippet, after, bool(wide))[1]
    d["two_byte_filler"] = bool(wide)
    return d


# ---- the line-ending convention of the FILE (LF, CRLF, lone CR), with and without a snippet marker, must not change
# what is read: reuse_info_of_file reads differently sized parts depending on the marker
EOL_LINES = [
    "<!-- SPDX-License-Identifier: MIT -->",
    "<!-- SPDX-FileCopyrightText: 2020 Jane Doe -->",
    "<%-- SPDX-FileContributor: Alice Example --%>",
    "{{!-- SPDX-License-Identifier: 0BSD --}}",
    "/* SPDX-FileCopyrightText: 2021 Acme */",
    "# SPDX-License-Identifier: GPL-3.0-or-later",
]
EOLS = ["\n", "\r\n", "\r"]


def eol_story(e, snippet, after, final):
    eol = EOLS[0]
    for i, v in enumerate(EOLS):
        if e == i:
            eol = v
    lines = list(EOL_LINES) + ["code = 1"]
    if snippet:
        lines = (lines + ["# SPDX-SnippetBegin"]) if after else (["# SPDX-SnippetBegin"] + lines)

    def read(sep):
        data = (sep.join(lines) + (sep if final else "")).encode("utf-8")
        saved = (ex.Path, ex.relative_from_root)
        ex.Path = lambda p: p
        ex.relative_from_root = lambda p, root: _Rel(str(p))
        try:
            info = ex.reuse_info_of_file(FakeFilePath(data), FakeFilePath(data), "/proj")
        except Exception as exc:  # noqa
            return "raised " + type(exc).__name__
        finally:
            ex.Path, ex.relative_from_root = saved
        return [sorted(str(x) for x in info.spdx_expressions), sorted(info.copyright_lines), sorted(info.contributor_lines)]

    want = [["0BSD", "GPL-3.0-or-later", "MIT"], ["2020 Jane Doe", "2021 Acme"], ["Alice Example"]]
    got = read(eol)
    got = got if isinstance(got, str) else [got[0], [c.replace("SPDX-FileCopyrightText: ", "") for c in got[1]], got[2]]
    return got == want, {"line_ending": repr(eol), "snippet_marker": bool(snippet), "marker_after": bool(after), "final_line_ending": bool(final), "got": got, "expected": want}


def _eol(e: int, snippet: bool, after: bool, final: bool) -> bool:
    """
    pre: 0 <= e < 3
    post: _
    """
    return eol_story(e, snippet, after, final)[0]


def _eol_reach(e: int, snippet: bool, after: bool, final: bool) -> bool:
    """
    pre: 0 <= e < 3
    post: False
    """
    return eol_story(e, snippet, after, final)[0]


def explain_eol(*a):
    return eol_story(*a)[1]


# ---- reading is a function of the text alone: what an earlier file of the same run held must not show
SPELLINGS = [("MIT", "mit"), ("LicenseRef-ACME", "LicenseRef-acme"), ("Apache-2.0", "apache-2.0"), ("MIT OR 0BSD", "MIT  or  0BSD"), ("GPL-2.0-only", "GPL-2.0-ONLY")]


def hist_story(i, swap, third):
    pair = SPELLINGS[0]
    for n, v in enumerate(SPELLINGS):
        if i == n:
            pair = v
    first, second = (pair[1], pair[0]) if swap else pair
    seq = [first, second] + ([first] if third else [])
    got, want = [], []
    for ident in seq:
        text = "# SPDX-FileCopyrightText: 2020 Jane Doe\n# SPDX-License-Identifier: " + ident + "\n"
        try:
            info = ex.extract_reuse_info(text)
            got.append(sorted(str(x) for x in info.spdx_expressions))
        except Exception as exc:  # noqa
            got.append("raised " + type(exc).__name__)
        try:
            want.append([str(ex._LICENSING.parse(ident))])
        except Exception as exc:  # noqa
            want.append("raised " + type(exc).__name__)
    return got == want, {"identifiers_in_order": seq, "read": got, "each_read_alone": want}


def _hist(i: int, swap: bool, third: bool) -> bool:
    """
    pre: 0 <= i < len(SPELLINGS)
    post: _
    """
    return hist_story(i, swap, third)[0]


def _hist_reach(i: int, swap: bool, third: bool) -> bool:
    """
    pre: 0 <= i < len(SPELLINGS)
    post: False
    """
    return hist_story(i, swap, third)[0]


def explain_hist(*a):
    return hist_story(*a)[1]


# ---- copyright notices on lines separated by every kind of line break str.splitlines knows (CR-only files ...)
SEPS = [13, 11, 12, 28, 29, 30, 133, 8232, 8233]


def sep_story(si, tag):
    sep = chr(SEPS[_pick(si, len(SEPS))])
    tags = ["SPDX-FileCopyrightText:", "Copyright (C)", "©"]
    t = tags[_pick(tag, 3)]
    text = f"# {t} 2020 Jane Doe{sep}# {t} 2021 Acme Inc.{sep}x = 1{sep}"
    try:
        info = ex.extract_reuse_info(text)
    except Exception as e:  # noqa
        return False, {"separator": repr(sep), "text": text, "got": f"raises {type(e).__name__}"}
    got = sorted(info.copyright_lines)
    want = sorted([f"{t} 2020 Jane Doe", f"{t} 2021 Acme Inc."])
    return got == want, {"separator": repr(sep), "text": text, "got": got, "expected": want}


def _pick(i, n):
    for v in range(n):
        if i == v:
            return v
    return 0


def _sep(si: int, tag: int) -> bool:
    """
    pre: 0 <= si < len(SEPS) and 0 <= tag < 3
    post: _
    """
    return sep_story(si, tag)[0]


def _sep_reach(si: int, tag: int) -> bool:
    """
    pre: 0 <= si < len(SEPS) and 0 <= tag < 3
    post: False
    """
    return sep_story(si, tag)[0]


def explain_sep(si, tag):
    return sep_story(si, tag)[1]


EXPLAIN = {"_hist": explain_hist, "_eol": explain_eol, "_tag": explain_tag, "_win": explain_win, "_marker": explain_marker, "_sep": explain_sep}
