"""C03 harness: exactly the covered files are examined.

Real code executed: covered_files.is_path_ignored, covered_files.iter_files (os.walk replaced by a
model that honours in-place pruning), Project.all_files, cli.annotate.all_paths.
The file system and the VCS layer are models: kinds and VCS answers are symbolic."""
from pathlib import Path, PosixPath

from vf.harness.common import PARAMS, nativize_pathlib

import reuse.covered_files as cf

nativize_pathlib()

ROOT = "/proj"
# names on both sides of each exclusion rule, with the statement's verdict written by hand:
# (name, excluded as a FILE name by the statement, excluded as a DIRECTORY name by the statement)
NAMES = [
    ("a.py", False, False),
    ("LICENSE", True, False),
    ("LICENCE", True, False),
    ("LICENSE-MIT", True, False),
    ("LICENSE.txt", True, False),
    ("LICENSEX", False, False),
    ("LICENSES", False, True),
    ("COPYING.md", True, False),
    ("COPYINGX", False, False),
    ("x.license", True, False),
    ("xlicense", False, False),
    ("a.spdx", True, False),
    ("a.spdx.json", True, False),
    ("a.spdx.yaml", True, False),
    ("a.spdxx", False, False),
    ("a.spdx-json", False, False),
    ("REUSE.toml", True, False),
    ("REUSE.toml.bak", False, False),
    (".git", True, True),
    (".hgtags", True, False),
    (".hg", False, True),
    (".sl", False, True),
    (".reuse", False, True),
    (".gitignore", False, False),
    ("subprojects", False, False),
    ("CAL-1.0.txt", False, False),  # known finding: the tool skips it everywhere
    ("SHL-2.1", False, False),  # known finding
]
NAME_SET = PARAMS.get("names", list(range(len(NAMES))))
CARVE = set(PARAMS.get("carve", []))
KINDS = ["file", "empty", "dir", "symlink-file", "symlink-dir", "stat-error-file"]


class Stat:
    def __init__(self, size):
        self.st_size = size


class FakePath(PosixPath):
    FS = {}  # str(path) -> kind

    def _k(self):
        return FakePath.FS.get(str(self))

    def is_symlink(self):
        return self._k() in ("symlink-file", "symlink-dir")

    def is_file(self):
        return self._k() in ("file", "empty", "symlink-file", "stat-error-file")

    def is_dir(self):
        return self._k() in ("dir", "symlink-dir")

    def exists(self):
        return self._k() is not None

    def resolve(self, strict=False):
        return self

    def stat(self, follow_symlinks=True):
        k = self._k()
        if k == "stat-error-file":
            raise PermissionError(13, "denied", str(self))
        if k is None:
            raise FileNotFoundError(2, "no", str(self))
        return Stat(0 if k == "empty" else 7)


class FakeVCS:
    def __init__(self, ignored, submodules):
        self.ignored = ignored
        self.submodules = submodules

    def is_ignored(self, path):
        return str(path) in self.ignored

    def is_submodule(self, path):
        return str(path) in self.submodules


def _pick_from(i, allowed):
    for v in allowed:
        if i == v:
            return v
    return allowed[0]


def _member(x, allowed):
    for v in allowed:
        if x == v:
            return True
    return False


def _b(x):
    return True if x else False


def spec_ignored(name, kind, parent, vcs, ignored, submodule, inc_sub, inc_meson, inc_toml, subset):
    """The statement's decision for one path. subset: None | 'in' | 'out'
    (file: named in F or not; directory: some file of F below it or not)."""
    nm, as_file, as_dir = NAMES[name]
    if kind in ("symlink-file", "symlink-dir"):
        return True
    if kind in ("file", "empty", "stat-error-file"):
        if subset == "out":
            return True
        if as_file and not (nm == "REUSE.toml" and inc_toml):
            return True
        if kind == "empty":
            return True
    else:
        if subset == "out":
            return True
        if as_dir:
            return True
        if parent == "subprojects" and not inc_meson:
            return True
        if vcs and submodule and not inc_sub:
            return True
    if vcs and ignored:
        return True
    return False


def known_key(name):
    if NAMES[name][0].startswith(("CAL-1.0", "SHL-2.1")):
        return "license-text-workaround"
    return None


# ------------------------------------------------------------------ is_path_ignored, one path
def _one(name, kind, par, vcs, ign, sub, f1, f2, f3, ss):
    n = _pick_from(name, NAME_SET)
    k = KINDS[_pick_from(kind, list(range(len(KINDS))))]
    parent = "subprojects" if par else "src"
    vcs, ign, sub, f1, f2, f3 = _b(vcs), _b(ign), _b(sub), _b(f1), _b(f2), _b(f3)
    subset = [None, "in", "out"][_pick_from(ss, [0, 1, 2])]
    p = FakePath(f"{ROOT}/{parent}/{NAMES[n][0]}")
    FakePath.FS = {str(p): k, f"{ROOT}/{parent}": "dir", f"{ROOT}/other/z.py": "file"}
    strategy = FakeVCS({str(p)} if ign else set(), {str(p)} if sub else set()) if vcs else None
    if subset is None:
        files = None
    elif k in ("dir", "symlink-dir"):
        files = {FakePath(f"{p}/inner.py")} if subset == "in" else {FakePath(f"{ROOT}/other/z.py")}
    else:
        files = {p} if subset == "in" else {FakePath(f"{ROOT}/other/z.py")}
    got = cf.is_path_ignored(p, subset_files=files, include_submodules=f1, include_meson_subprojects=f2, include_reuse_tomls=f3, vcs_strategy=strategy)
    exp = spec_ignored(n, k, parent, vcs, ign, sub, f1, f2, f3, subset)
    d = {"name": NAMES[n][0], "kind": k, "parent": parent, "vcs": vcs, "vcs_ignored": ign, "submodule": sub, "include_submodules": f1, "include_meson_subprojects": f2, "include_reuse_tomls": f3, "subset": subset, "got": bool(got), "expected": exp}
    return bool(got) == exp or known_key(n) in CARVE, d


def _pre_one(name, kind, ss):
    return _member(name, NAME_SET) and _member(kind, list(range(len(KINDS)))) and _member(ss, [0, 1, 2])


def _ign(name: int, kind: int, par: bool, vcs: bool, ign: bool, sub: bool, f1: bool, f2: bool, f3: bool, ss: int) -> bool:
    """
    pre: _pre_one(name, kind, ss)
    post: _
    """
    return _one(name, kind, par, vcs, ign, sub, f1, f2, f3, ss)[0]


def _ign_reach(name: int, kind: int, par: bool, vcs: bool, ign: bool, sub: bool, f1: bool, f2: bool, f3: bool, ss: int) -> bool:
    """
    pre: _pre_one(name, kind, ss)
    post: False
    """
    return _one(name, kind, par, vcs, ign, sub, f1, f2, f3, ss)[0]


def explain_ign(*a):
    return _one(*a)[1]


# ------------------------------------------------------------------ iter_files over a two-level tree
DIRNAMES = PARAMS.get("dirnames", ["src", "LICENSES", ".git", "subprojects", ".reuse"])
FILENAMES = PARAMS.get("filenames", [0, 1, 9, 11, 16])  # a.py LICENSE x.license a.spdx REUSE.toml
FKINDS = ["file", "empty", "symlink-file"]
FLAGS = PARAMS.get("flags")  # [inc_sub, inc_meson, inc_toml] fixed per condition


def walk_model(tree):
    """os.walk(top-down) over a dict tree {dir: ([subdirs], [files])}; honours in-place pruning of dirs."""

    def walk(top, *a, **k):
        stack = [str(top)]
        while stack:
            cur = stack.pop()
            dirs, files = tree.get(cur, ([], []))
            dirs, files = list(dirs), list(files)
            yield cur, dirs, files
            for d in reversed(dirs):
                stack.append(f"{cur}/{d}")

    return walk


def _tree(d1, d1sym, d1ign, d1sub, g, gk, gign, d2meson):
    dn = DIRNAMES[_pick_from(d1, list(range(len(DIRNAMES))))]
    gi = _pick_from(g, FILENAMES)
    gkind = FKINDS[_pick_from(gk, [0, 1, 2])]
    d1sym, d1ign, d1sub, gign, d2meson = _b(d1sym), _b(d1ign), _b(d1sub), _b(gign), _b(d2meson)
    D1 = f"{ROOT}/{dn}"
    G = f"{D1}/{NAMES[gi][0]}"
    D2 = f"{D1}/pkg"
    H = f"{D2}/h.py"
    F = f"{ROOT}/top.py"
    fs = {ROOT: "dir", D1: "symlink-dir" if d1sym else "dir", G: gkind, D2: "dir", H: "file", F: "file"}
    tree = {ROOT: ([dn], ["top.py"]), D1: (["pkg"], [NAMES[gi][0]]), D2: ([], ["h.py"])}
    if d1sym:
        # os.walk does not descend into symlinked directories (followlinks=False) but lists them
        tree[D1] = ([], [])
    vcs = FakeVCS(({D1} if d1ign else set()) | ({G} if gign else set()), {D1} if d1sub else set())
    return dn, gi, gkind, d1sym, d1ign, d1sub, gign, fs, tree, vcs, (D1, G, D2, H, F)


def _iter(d1, d1sym, d1ign, d1sub, g, gk, gign, use_vcs):
    dn, gi, gkind, d1sym, d1ign, d1sub, gign, fs, tree, vcs, (D1, G, D2, H, F) = _tree(d1, d1sym, d1ign, d1sub, g, gk, gign, False)
    use_vcs = _b(use_vcs)
    inc_sub, inc_meson, inc_toml = FLAGS
    FakePath.FS = fs
    saved = (cf.Path, cf.os.walk)
    cf.Path = FakePath
    cf.os.walk = walk_model(tree)
    try:
        got = sorted(str(p) for p in cf.iter_files(ROOT, include_submodules=inc_sub, include_meson_subprojects=inc_meson, include_reuse_tomls=inc_toml, vcs_strategy=vcs if use_vcs else None))
    finally:
        cf.Path, cf.os.walk = saved
    # statement: a file is yielded iff it is not excluded and no ancestor directory is excluded
    dname_idx = {"src": 0, "LICENSES": 6, ".git": 18, "subprojects": 24, ".reuse": 22}[dn]
    d1_out = spec_ignored(dname_idx, "symlink-dir" if d1sym else "dir", "proj", use_vcs, d1ign, d1sub, inc_sub, inc_meson, inc_toml, None)
    d2_out = spec_ignored(0, "dir", dn, use_vcs, False, False, inc_sub, inc_meson, inc_toml, None)
    exp = [F]
    if not d1_out:
        if not spec_ignored(gi, gkind, dn, use_vcs, gign, False, inc_sub, inc_meson, inc_toml, None):
            exp.append(G)
        if not d2_out:
            exp.append(H)
    exp = sorted(exp)
    d = {"dir": dn, "dir_symlink": d1sym, "dir_vcs_ignored": d1ign, "dir_submodule": d1sub, "file": NAMES[gi][0], "file_kind": gkind, "file_vcs_ignored": gign, "vcs": use_vcs, "flags": FLAGS, "got": got, "expected": exp}
    return got == exp or known_key(gi) in CARVE, d


def _pre_iter(d1, g, gk):
    return _member(d1, list(range(len(DIRNAMES)))) and _member(g, FILENAMES) and _member(gk, [0, 1, 2])


def _walk(d1: int, d1sym: bool, d1ign: bool, d1sub: bool, g: int, gk: int, gign: bool, use_vcs: bool) -> bool:
    """
    pre: _pre_iter(d1, g, gk)
    post: _
    """
    return _iter(d1, d1sym, d1ign, d1sub, g, gk, gign, use_vcs)[0]


def _walk_reach(d1: int, d1sym: bool, d1ign: bool, d1sub: bool, g: int, gk: int, gign: bool, use_vcs: bool) -> bool:
    """
    pre: _pre_iter(d1, g, gk)
    post: False
    """
    return _iter(d1, d1sym, d1ign, d1sub, g, gk, gign, use_vcs)[0]


def explain_walk(*a):
    return _iter(*a)[1]


EXPLAIN = {"_ign": explain_ign, "_walk": explain_walk}


# ------------------------------------------------------------------ annotate --recursive expansion
import reuse._util as ut  # noqa: E402
import reuse.cli.annotate as an  # noqa: E402
import reuse.project as pj  # noqa: E402


def _rec_story(d1, d1sym, d1ign, d1sub, g, gk, gign, use_vcs, req, sib=False):
    dn, gi, gkind, d1sym, d1ign, d1sub, gign, fs, tree, vcs, (D1, G, D2, H, F) = _tree(d1, d1sym, d1ign, d1sub, g, gk, gign, False)
    use_vcs = _b(use_vcs)
    sib = _b(sib)
    inc_sub, inc_meson, inc_toml = FLAGS
    if sib:
        # h.py has a .license sibling: annotate must be pointed at the sibling, also under --recursive
        fs[H + ".license"] = "file"
        tree[D2] = ([], ["h.py", "h.py.license"])
    FakePath.FS = fs
    targets = [ROOT, D1, D2, F, G]
    t = targets[_pick_from(req, PARAMS.get("requests", [0, 1, 2, 3, 4]))]
    saved = (cf.Path, cf.os.walk, ut.Path, pj.Path)
    cf.Path = FakePath
    ut.Path = FakePath
    cf.os.walk = walk_model(tree)
    try:
        project = pj.Project(FakePath(ROOT), vcs_strategy=vcs if use_vcs else FakeVCS(set(), set()), license_map={}, licenses={}, include_submodules=inc_sub, include_meson_subprojects=inc_meson)
        got = sorted(str(p) for p in an.all_paths([FakePath(t)], True, project))
    finally:
        cf.Path, cf.os.walk, ut.Path, pj.Path = saved
    dname_idx = {"src": 0, "LICENSES": 6, ".git": 18, "subprojects": 24, ".reuse": 22}[dn]
    d1_out = spec_ignored(dname_idx, "symlink-dir" if d1sym else "dir", "proj", use_vcs, d1ign, d1sub, inc_sub, inc_meson, False, None)
    d2_out = spec_ignored(0, "dir", dn, use_vcs, False, False, inc_sub, inc_meson, False, None)
    covered = [F]
    if not d1_out:
        if not spec_ignored(gi, gkind, dn, use_vcs, gign, False, inc_sub, inc_meson, False, None):
            covered.append(G)
        if not d2_out:
            covered.append(H)
    if t in (F, G):
        # a file named explicitly is annotated as given (if it is a file at all)
        exp = [t] if fs.get(t) in ("file", "empty", "symlink-file", "stat-error-file") else []
    else:
        exp = [c for c in covered if c.startswith(t + "/")]
    if sib:
        exp = [(c + ".license") if c == H else c for c in exp]
    d = {"dir": dn, "dir_symlink": d1sym, "dir_vcs_ignored": d1ign, "dir_submodule": d1sub, "file": NAMES[gi][0], "file_kind": gkind, "file_vcs_ignored": gign, "vcs": use_vcs, "flags": FLAGS, "requested": t, "got": got, "expected": sorted(exp)}
    return got == sorted(exp) or known_key(gi) in CARVE, d


def _rec(d1: int, d1sym: bool, d1ign: bool, d1sub: bool, g: int, gk: int, gign: bool, use_vcs: bool, req: int, sib: bool) -> bool:
    """
    pre: _pre_iter(d1, g, gk) and _member(req, PARAMS.get("requests", [0, 1, 2, 3, 4]))
    post: _
    """
    return _rec_story(d1, d1sym, d1ign, d1sub, g, gk, gign, use_vcs, req, sib)[0]


def _rec_reach(d1: int, d1sym: bool, d1ign: bool, d1sub: bool, g: int, gk: int, gign: bool, use_vcs: bool, req: int, sib: bool) -> bool:
    """
    pre: _pre_iter(d1, g, gk) and _member(req, PARAMS.get("requests", [0, 1, 2, 3, 4]))
    post: False
    """
    return _rec_story(d1, d1sym, d1ign, d1sub, g, gk, gign, use_vcs, req, sib)[0]


def explain_rec(*a):
    return _rec_story(*a)[1]


EXPLAIN["_rec"] = explain_rec


# ------------------------------------------------------------------ reading Git's answer (the parsing, not Git itself)
import reuse.vcs as vcs  # noqa: E402

GIT_NAMES = ["build/", "a b.txt", "ü.log", "dir/sub dir/", "x\ny.txt", "-odd", "trailing "]


class _Result:
    def __init__(self, out):
        self.stdout = out
        self.returncode = 0


def git_story(i, j, k, n):
    idx = [_pick_from(x, list(range(len(GIT_NAMES)))) for x in (i, j, k)][: _pick_from(n, [0, 1, 2, 3])]
    listed = []
    for x in idx:
        if GIT_NAMES[x] not in listed:
            listed.append(GIT_NAMES[x])
    out = "".join(name + "\0" for name in listed).encode("utf-8")
    subs = "".join(f"submodule.m{q}.path\n{name.rstrip('/')}\0" for q, name in enumerate(listed) if "\n" not in name).encode("utf-8")
    saved = vcs.execute_command

    def fake(command, logger, cwd=None, **kw):
        return _Result(subs if "config" in command else out)

    vcs.execute_command = fake
    try:
        g = object.__new__(vcs.VCSStrategyGit)
        g.root = Path("/proj")
        g._all_ignored_files = g._find_all_ignored_files()
        g._submodules = g._find_submodules()
        for name in GIT_NAMES:
            want = name in listed
            got = g.is_ignored(Path("/proj") / name.rstrip("/")) if name.endswith("/") else g.is_ignored(Path("/proj") / name)
            if bool(got) != want:
                return False, {"git_lists": listed, "path": name, "is_ignored": bool(got), "expected": want}
        for name in GIT_NAMES:
            if "\n" in name:
                continue
            want = name in listed
            got = g.is_submodule(Path("/proj") / name.rstrip("/"))
            if bool(got) != want:
                return False, {"gitmodules_lists": listed, "path": name, "is_submodule": bool(got), "expected": want}
        if g.is_ignored(Path("/proj/src/never-listed.py")):
            return False, {"git_lists": listed, "path": "src/never-listed.py", "is_ignored": True, "expected": False}
    finally:
        vcs.execute_command = saved
    return True, {"git_lists": listed}


def _git(i: int, j: int, k: int, n: int) -> bool:
    """
    pre: _member(i, list(range(len(GIT_NAMES)))) and _member(j, list(range(len(GIT_NAMES)))) and _member(k, list(range(len(GIT_NAMES)))) and _member(n, [0, 1, 2, 3])
    post: _
    """
    return git_story(i, j, k, n)[0]


def _git_reach(i: int, j: int, k: int, n: int) -> bool:
    """
    pre: _member(i, list(range(len(GIT_NAMES)))) and _member(j, list(range(len(GIT_NAMES)))) and _member(k, list(range(len(GIT_NAMES)))) and _member(n, [0, 1, 2, 3])
    post: False
    """
    return git_story(i, j, k, n)[0]


def explain_git(*a):
    return git_story(*a)[1]


EXPLAIN["_git"] = explain_git


# ------------------------------------------------------------------ the REUSE.toml files that take part
# Project.from_directory discovers nested REUSE.toml files with a walk of its own; the statement's exclusions
# (and the two include options) must apply to that walk exactly as they do to the walk for covered files.
import reuse.global_licensing as gl  # noqa: E402


def toml_story(d1, d2ign, d2sub, use_vcs, inc_sub, inc_meson):
    dn = DIRNAMES[_pick_from(d1, list(range(len(DIRNAMES))))]
    d2ign, d2sub, use_vcs, inc_sub, inc_meson = _b(d2ign), _b(d2sub), _b(use_vcs), _b(inc_sub), _b(inc_meson)
    D1 = f"{ROOT}/{dn}"
    D2 = f"{D1}/pkg"
    T0, T2, H, F = f"{ROOT}/REUSE.toml", f"{D2}/REUSE.toml", f"{D2}/h.py", f"{ROOT}/top.py"
    FakePath.FS = {ROOT: "dir", D1: "dir", D2: "dir", T0: "file", T2: "file", H: "file", F: "file"}
    tree = {ROOT: ([dn], ["REUSE.toml", "top.py"]), D1: (["pkg"], []), D2: ([], ["REUSE.toml", "h.py"])}
    vcs = FakeVCS({D2} if d2ign else set(), {D2} if d2sub else set()) if use_vcs else None
    saved = (cf.Path, cf.os.walk, pj.Path, pj.Project._detect_vcs_strategy, gl.ReuseTOML.from_file, pj.Project._find_licenses)
    cf.Path = FakePath
    pj.Path = FakePath
    cf.os.walk = walk_model(tree)
    pj.Project._detect_vcs_strategy = classmethod(lambda cls, root: vcs)
    gl.ReuseTOML.from_file = classmethod(lambda cls, path, **kw: gl.ReuseTOML(version=1, source=str(path), annotations=[]))
    pj.Project._find_licenses = lambda self: {}
    try:
        project = pj.Project.from_directory(FakePath(ROOT), include_submodules=inc_sub, include_meson_subprojects=inc_meson)
        gli = project.global_licensing
        tomls = sorted(t.source for t in gli.reuse_tomls) if isinstance(gli, gl.NestedReuseTOML) else ([gli.source] if gli is not None else [])
        files = sorted(str(p) for p in project.all_files())
    finally:
        cf.Path, cf.os.walk, pj.Path, pj.Project._detect_vcs_strategy, gl.ReuseTOML.from_file, pj.Project._find_licenses = saved
    dname_idx = {"src": 0, "LICENSES": 6, ".git": 18, "subprojects": 24, ".reuse": 22}[dn]
    d1_out = spec_ignored(dname_idx, "dir", "proj", use_vcs, False, False, inc_sub, inc_meson, False, None)
    d2_out = d1_out or spec_ignored(0, "dir", dn, use_vcs, d2ign, d2sub, inc_sub, inc_meson, False, None)
    exp_tomls = sorted([T0] + ([] if d2_out else [T2]))
    exp_files = sorted([F] + ([] if d2_out else [H]))
    d = {"dir": dn, "pkg_vcs_ignored": d2ign, "pkg_submodule": d2sub, "vcs": use_vcs, "include_submodules": inc_sub, "include_meson_subprojects": inc_meson, "reuse_tomls": tomls, "expected_reuse_tomls": exp_tomls, "covered_files": files, "expected_covered_files": exp_files}
    return tomls == exp_tomls and files == exp_files, d


def _tomls(d1: int, d2ign: bool, d2sub: bool, use_vcs: bool, inc_sub: bool, inc_meson: bool) -> bool:
    """
    pre: 0 <= d1 < len(DIRNAMES)
    post: _
    """
    return toml_story(d1, d2ign, d2sub, use_vcs, inc_sub, inc_meson)[0]


def _tomls_reach(d1: int, d2ign: bool, d2sub: bool, use_vcs: bool, inc_sub: bool, inc_meson: bool) -> bool:
    """
    pre: 0 <= d1 < len(DIRNAMES)
    post: False
    """
    return toml_story(d1, d2ign, d2sub, use_vcs, inc_sub, inc_meson)[0]


def explain_tomls(*a):
    return toml_story(*a)[1]


EXPLAIN["_tomls"] = explain_tomls


# ------------------------------------------------------------------ lint-file: the spelling of root and of the named files
# `lint-file` / Project.subset_files: a named file is examined whatever way its path (or the root) is spelled -
# relative to the working directory, with '..' components, absolute.  Model: a path algebra in which resolve()
# makes a path absolute and collapses '.' / '..' (no symlinks in this tree) while absolute() only prefixes the
# working directory, as pathlib documents.
import posixpath  # noqa: E402

CWD = "/proj"


class SpellPath(FakePath):
    def _abs(self):
        s = str(self)
        return s if s.startswith("/") else CWD + "/" + s

    def _k(self):
        return FakePath.FS.get(posixpath.normpath(self._abs()))

    def resolve(self, strict=False):
        return SpellPath(posixpath.normpath(self._abs()))

    def absolute(self):
        return SpellPath(self._abs())


ROOT_SPELL = ["/proj", ".", "src/..", "/proj/src/..", "/proj/./"]
FILE_SPELL = ["/proj/src/a.py", "src/a.py", "./src/a.py", "src/../src/a.py", "/proj/src/../src/a.py", "src/./a.py"]


def spelled_walk(tree_by_real):
    """os.walk over the model tree, for a top spelled any way: directory names are joined to the top as given."""

    def walk(top, *a, **k):
        stack = [str(top)]
        while stack:
            cur = stack.pop()
            real = posixpath.normpath(cur if cur.startswith("/") else CWD + "/" + cur)
            dirs, files = tree_by_real.get(real, ([], []))
            dirs, files = list(dirs), list(files)
            yield cur, dirs, files
            for d in reversed(dirs):
                stack.append(posixpath.join(cur, d))

    return walk


def subset_story(r, s, other):
    root = ROOT_SPELL[_pick_from(r, list(range(len(ROOT_SPELL))))]
    named = FILE_SPELL[_pick_from(s, list(range(len(FILE_SPELL))))]
    FakePath.FS = {"/proj": "dir", "/proj/src": "dir", "/proj/src/a.py": "file", "/proj/src/b.py": "file", "/proj/top.py": "file", "/proj/docs": "dir", "/proj/docs/c.py": "file"}
    tree = {"/proj": (["docs", "src"], ["top.py"]), "/proj/src": ([], ["a.py", "b.py"]), "/proj/docs": ([], ["c.py"])}
    subset = [named] + (["docs/../top.py"] if _b(other) else [])
    saved = (cf.Path, cf.os.walk)
    cf.Path = SpellPath
    cf.os.walk = spelled_walk(tree)
    try:
        got = sorted(posixpath.normpath(p._abs()) for p in cf.iter_files(SpellPath(root), subset_files=subset))
    finally:
        cf.Path, cf.os.walk = saved
    exp = sorted(["/proj/src/a.py"] + (["/proj/top.py"] if _b(other) else []))
    return got == exp, {"cwd": CWD, "root": root, "named_files": subset, "examined": got, "expected": exp}


def _subset(r: int, s: int, other: bool) -> bool:
    """
    pre: 0 <= r < len(ROOT_SPELL) and 0 <= s < len(FILE_SPELL)
    post: _
    """
    return subset_story(r, s, other)[0]


def _subset_reach(r: int, s: int, other: bool) -> bool:
    """
    pre: 0 <= r < len(ROOT_SPELL) and 0 <= s < len(FILE_SPELL)
    post: False
    """
    return subset_story(r, s, other)[0]


def explain_subset(*a):
    return subset_story(*a)[1]


EXPLAIN["_subset"] = explain_subset


# ------------------------------------------------------------------ lint-file: the command's own path handling
# The files are named relative to the working directory, which need not be the project root.
import click as _click  # noqa: E402

import reuse.cli.lint_file as lf  # noqa: E402

CWDS = ["/proj", "/proj/docs", "/proj/src"]
# (spelling of the root as seen from the working directory, by index of CWDS)
ROOTS_FROM = {"/proj": ["/proj", "."], "/proj/docs": ["/proj", "..", "../docs/.."], "/proj/src": ["/proj", ".."]}
# files that exist, named from each working directory
NAMED_FROM = {
    "/proj": ["src/a.py", "./top.py", "docs/../top.py", "/proj/docs/c.py"],
    "/proj/docs": ["c.py", "../src/a.py", "../top.py", "/proj/src/a.py"],
    "/proj/src": ["a.py", "./b.py", "../docs/c.py", "/proj/top.py"],
}


class _Stop(Exception):
    pass


def lintfile_story(w, r, f):
    global CWD
    cwd = CWDS[_pick_from(w, list(range(len(CWDS))))]
    roots = ROOTS_FROM[cwd]
    root = roots[_pick_from(r, list(range(len(roots))))]
    names = NAMED_FROM[cwd]
    named = names[_pick_from(f, list(range(len(names))))]
    FakePath.FS = {"/proj": "dir", "/proj/src": "dir", "/proj/src/a.py": "file", "/proj/src/b.py": "file", "/proj/top.py": "file", "/proj/docs": "dir", "/proj/docs/c.py": "file"}
    tree = {"/proj": (["docs", "src"], ["top.py"]), "/proj/src": ([], ["a.py", "b.py"]), "/proj/docs": ([], ["c.py"])}
    saved_cwd = CWD
    CWD = cwd
    captured = []

    def fake_generate(project, subset_files, multiprocessing=False):
        # what the walk would examine for this request: the real iter_files over the model
        captured.extend(sorted(posixpath.normpath(p._abs()) for p in cf.iter_files(project.root, subset_files=subset_files)))
        raise _Stop()

    saved = (cf.Path, cf.os.walk, lf.Path, lf.ProjectSubsetReport.generate, pj.Path)
    cf.Path = SpellPath
    lf.Path = SpellPath
    pj.Path = SpellPath

    class _Obj:
        no_multiprocessing = True
        project = pj.Project(SpellPath(root), vcs_strategy=None, license_map={}, licenses={})

    # the attrs converter is the real Path class, bound when the class was defined: put the model path back
    object.__setattr__(_Obj.project, "root", SpellPath(root))

    cf.os.walk = spelled_walk(tree)
    lf.ProjectSubsetReport.generate = staticmethod(fake_generate)
    outcome = "returned"
    try:
        try:
            cb = lf.lint_file.callback
            cb = getattr(cb, "__wrapped__", cb)
            cb(_Obj, False, True, [SpellPath(named)])
        except _Stop:
            outcome = "report"
        except _click.UsageError:
            outcome = "usage-error"
        except SystemExit:
            outcome = "exit"
    finally:
        cf.Path, cf.os.walk, lf.Path, lf.ProjectSubsetReport.generate, pj.Path = saved
        CWD = saved_cwd
    want = [posixpath.normpath(named if named.startswith("/") else cwd + "/" + named)]
    ok = outcome == "report" and captured == want
    return ok, {"cwd": cwd, "root": root, "named": named, "outcome": outcome, "examined": captured, "expected": want}


def _lintfile(w: int, r: int, f: int) -> bool:
    """
    pre: 0 <= w < 3 and 0 <= r < 3 and 0 <= f < 4
    post: _
    """
    return lintfile_story(w, r, f)[0]


def _lintfile_reach(w: int, r: int, f: int) -> bool:
    """
    pre: 0 <= w < 3 and 0 <= r < 3 and 0 <= f < 4
    post: False
    """
    return lintfile_story(w, r, f)[0]


def explain_lintfile(*a):
    return lintfile_story(*a)[1]


EXPLAIN["_lintfile"] = explain_lintfile


# ------------------------------------------------------------------ lint-file sees the same covered files as lint
# Project.subset_files (lint-file) restricted to F must be Project.all_files (lint) intersected with F,
# under every combination of the include options and VCS answers.
def subsetflags_story(d1, d2ign, d2sub, use_vcs, inc_sub, inc_meson):
    dn = DIRNAMES[_pick_from(d1, list(range(len(DIRNAMES))))]
    d2ign, d2sub, use_vcs, inc_sub, inc_meson = _b(d2ign), _b(d2sub), _b(use_vcs), _b(inc_sub), _b(inc_meson)
    D1 = f"{ROOT}/{dn}"
    D2 = f"{D1}/pkg"
    H, F = f"{D2}/h.py", f"{ROOT}/top.py"
    FakePath.FS = {ROOT: "dir", D1: "dir", D2: "dir", H: "file", F: "file"}
    tree = {ROOT: ([dn], ["top.py"]), D1: (["pkg"], []), D2: ([], ["h.py"])}
    vcs = FakeVCS({D2} if d2ign else set(), {D2} if d2sub else set()) if use_vcs else FakeVCS(set(), set())
    saved = (cf.Path, cf.os.walk)
    cf.Path = FakePath
    cf.os.walk = walk_model(tree)
    try:
        project = pj.Project(FakePath(ROOT), vcs_strategy=vcs, license_map={}, licenses={}, include_submodules=inc_sub, include_meson_subprojects=inc_meson)
        object.__setattr__(project, "root", FakePath(ROOT))
        everything = sorted(str(p) for p in project.all_files())
        named = sorted(str(p) for p in project.subset_files([FakePath(H), FakePath(F)]))
        only_h = sorted(str(p) for p in project.subset_files([FakePath(H)]))
    finally:
        cf.Path, cf.os.walk = saved
    ok = named == everything and only_h == [x for x in everything if x == H]
    return ok, {"dir": dn, "pkg_vcs_ignored": d2ign, "pkg_submodule": d2sub, "vcs": use_vcs, "include_submodules": inc_sub, "include_meson_subprojects": inc_meson, "lint_examines": everything, "lint_file_all_named": named, "lint_file_only_h": only_h}


def _subsetflags(d1: int, d2ign: bool, d2sub: bool, use_vcs: bool, inc_sub: bool, inc_meson: bool) -> bool:
    """
    pre: 0 <= d1 < len(DIRNAMES)
    post: _
    """
    return subsetflags_story(d1, d2ign, d2sub, use_vcs, inc_sub, inc_meson)[0]


def _subsetflags_reach(d1: int, d2ign: bool, d2sub: bool, use_vcs: bool, inc_sub: bool, inc_meson: bool) -> bool:
    """
    pre: 0 <= d1 < len(DIRNAMES)
    post: False
    """
    return subsetflags_story(d1, d2ign, d2sub, use_vcs, inc_sub, inc_meson)[0]


def explain_subsetflags(*a):
    return subsetflags_story(*a)[1]


EXPLAIN["_subsetflags"] = explain_subsetflags
