"""C04 harness: per-file sources and precedence.

Real code executed: Project.reuse_info_of, NestedReuseTOML.reuse_info_of,
_find_relevant_tomls(_and_items), ReuseTOML.reuse_info_of / find_annotations_item,
AnnotationsItem.matches, ReuseInfo.copy/union/contains_*, ReuseDep5.reuse_info_of.
Stubbed: reuse_info_of_file (the reader: owned by C02), is_binary,
_determine_license_path (file-system probes).
"""
from pathlib import Path

from vf.harness.common import PARAMS, native, nativize_pathlib

import reuse.project as pj
from reuse import ReuseInfo, SourceType, _LICENSING
from reuse.global_licensing import AnnotationsItem, NestedReuseTOML, PrecedenceType, ReuseDep5, ReuseTOML

nativize_pathlib()

ROOT = Path("/proj")
FILE = ROOT / PARAMS.get("dirs", ["", "a/", "a/b/"])[2] / "f.py"
DIRS = PARAMS.get("dirs", ["", "a/", "a/b/"])
REL = DIRS[2] + "f.py"
PRECS = ["closest", "aggregate", "override"]
INFOS = ["none", "c", "l", "cl"]  # copyright / licence present in the table
OWN = ["none", "c", "l", "cl", "unparseable", "binary"]
SIB = ["absent", "none", "c", "l", "cl"]  # the FILE.license sibling

LIC = {0: "MIT", 1: "Apache-2.0", 2: "ISC", "own": "0BSD", "sib": "Zlib", "t2": "curl"}
EXPR = {k: _LICENSING.parse(v) for k, v in LIC.items()}


def _item(level, prec, info, glob="**", tag=None):
    tag = level if tag is None else tag
    kw = {"paths": [glob], "precedence": prec}
    if "c" in info:
        kw["copyright_lines"] = {f"2020 Holder-L{tag}"}
    if "l" in info:
        kw["spdx_expressions"] = {LIC[tag]}
    return AnnotationsItem(**kw)


# every level shape is prebuilt at import time (concrete objects, built outside CrossHair)
SHAPES = [None] + [(p, i) for p in PRECS for i in INFOS]  # 13
TOMLS = {}
for lvl, d in enumerate(DIRS):
    for s in SHAPES[1:]:
        TOMLS[(lvl, s)] = ReuseTOML(version=1, source=str(ROOT / d / "REUSE.toml"), annotations=[_item(lvl, s[0], s[1])])

FIXED = PARAMS.get("levels", [None, None, None])  # per level: index into SHAPES, or null = symbolic
DEPTH = int(PARAMS.get("depth", 2))
OWN_SET = PARAMS.get("own", list(range(len(OWN))))
SIB_SET = PARAMS.get("sib", list(range(len(SIB))))
CARVE = set(PARAMS.get("carve", []))


def _pick(i, n):
    for v in range(n):
        if i == v:
            return v
    return 0


def _pick_from(i, allowed):
    for v in allowed:
        if i == v:
            return v
    return allowed[0]


def _info_of(kind, who, path, original):
    return _info_of_native(str(kind), who, str(path), str(original))


@native
def _info_of_native(kind, who, path, original):
    """What the (stubbed) reader returns for a file of this kind — same contract as the real
    reuse_info_of_file: empty unless copyright or licensing was found; source type by suffix."""
    c = {f"2021 {who}"} if "c" in kind and kind in ("c", "cl") else set()
    l = {EXPR[who]} if kind in ("l", "cl") else set()
    if not c and not l:
        return ReuseInfo()
    st = SourceType.DOT_LICENSE if Path(path).suffix == ".license" else SourceType.FILE_HEADER
    return ReuseInfo(
        spdx_expressions=l,
        copyright_lines=c,
        path=Path(original).relative_to(ROOT).as_posix(),
        source_path=Path(path).relative_to(ROOT).as_posix(),
        source_type=st,
    )


def scenario(o, s, l0, l1, l2):
    own = OWN[_pick_from(o, OWN_SET)]
    sib = SIB[_pick_from(s, SIB_SET)]
    lv = []
    for i, sym in enumerate((l0, l1, l2)):
        if i >= DEPTH:
            lv.append(None)
        elif FIXED[i] is not None:
            lv.append(SHAPES[FIXED[i]])
        else:
            lv.append(SHAPES[_pick(sym, len(SHAPES))])
    return own, sib, lv


@native
def fresh_tomls(lv):
    """Fresh REUSE.toml objects for every evaluation: a change that mutates them during a look-up must not
    leak from one explored path into the next (and must be visible to the two-look-up obligation)."""
    out = []
    for i, s in enumerate(lv):
        if s is not None:
            out.append(ReuseTOML(version=1, source=str(ROOT / DIRS[i] / "REUSE.toml"), annotations=[_item(i, s[0], s[1])]))
    return out


def real(own, sib, lv):
    """Run the real Project.reuse_info_of on the scenario."""
    tomls = fresh_tomls([tuple(s) if s is not None else None for s in lv])
    gl = NestedReuseTOML(reuse_tomls=list(reversed(tomls)), source=str(ROOT)) if tomls else None
    project = pj.Project(ROOT, vcs_strategy=None, global_licensing=gl, license_map={}, licenses={})
    read = []

    def fake_reader(path, original_path, root):
        read.append(str(path))
        if Path(path).suffix == ".license":
            return _info_of(sib, "sib", path, original_path)
        return _info_of("none" if own in ("unparseable", "binary") else own, "own", path, original_path)

    saved = (pj.reuse_info_of_file, pj.is_binary, pj._determine_license_path)
    pj.reuse_info_of_file = fake_reader
    pj.is_binary = lambda p: own == "binary" and not str(p).endswith(".license")
    pj._determine_license_path = lambda p: Path(f"{p}.license") if sib != "absent" else Path(p)
    try:
        res = project.reuse_info_of(FILE)
    finally:
        pj.reuse_info_of_file, pj.is_binary, pj._determine_license_path = saved
    return res, read


def norm(infos):
    out = []
    for i in infos:
        if not (i.copyright_lines or i.spdx_expressions):
            continue
        out.append((i.source_path, i.source_type.value if i.source_type else None, tuple(sorted(i.copyright_lines)), tuple(sorted(str(e) for e in i.spdx_expressions)), i.path))
    return sorted(out)


def model(own, sib, lv):
    """Independent model of the statement. -> (normalised items, file_must_be_read)"""
    active = []
    override = False
    for i, s in enumerate(lv):
        if s is None:
            continue
        active.append((i, s))
        if s[0] == "override":
            override = True
            break
    items = []

    def toml_item(i, s, c=True, l=True):
        cs = (f"2020 Holder-L{i}",) if ("c" in s[1] and c) else ()
        ls = (LIC[i],) if ("l" in s[1] and l) else ()
        if cs or ls:
            items.append((DIRS[i] + "REUSE.toml", "reuse-toml", cs, ls, REL))

    for i, s in active:
        if s[0] in ("override", "aggregate"):
            toml_item(i, s)
    # the file's own information (through the .license sibling when there is one)
    if override:
        fkind, who, src, st = "none", None, None, None
    elif sib != "absent":
        fkind, who, src, st = sib, "sib", REL + ".license", "dot-license"
    elif own in ("unparseable", "binary"):
        fkind, who, src, st = "none", None, None, None
    else:
        fkind, who, src, st = own, "own", REL, "file-header"
    has_c = fkind in ("c", "cl")
    has_l = fkind in ("l", "cl")
    if has_c or has_l:
        items.append((src, st, (f"2021 {who}",) if has_c else (), (LIC[who],) if has_l else (), REL))
    # closest: per attribute the nearest level that provides it, only for what the file lacks
    closest = [(i, s) for i, s in active if s[0] == "closest"]
    want_c = not has_c
    want_l = not has_l
    got = {}
    for i, s in reversed(closest):
        take_c = want_c and "c" in s[1] and "c" not in got
        take_l = want_l and "l" in s[1] and "l" not in got
        if take_c:
            got["c"] = i
        if take_l:
            got["l"] = i
    for i in sorted(set(got.values())):
        s = lv[i]
        toml_item(i, s, c=got.get("c") == i, l=got.get("l") == i)
    must_read = not override and not (own == "binary" and sib == "absent")
    return sorted(items), must_read


def known_key(own, sib, lv):
    """Known finding 'closest-split': the file has exactly one of copyright/licence, and the attribute it
    lacks is provided by a closest level *other than* the outermost closest level that is kept."""
    items, _ = model(own, sib, lv)
    closest_items = [it for it in items if it[1] == "reuse-toml" and lv[DIRS.index(it[0][: -len("REUSE.toml")])][0] == "closest"]
    # recompute what NestedReuseTOML keeps: per attribute nearest provider among active closest levels
    active = []
    for i, s in enumerate(lv):
        if s is None:
            continue
        active.append((i, s))
        if s[0] == "override":
            return None
    closest = [(i, s) for i, s in active if s[0] == "closest"]
    prov = {}
    for i, s in reversed(closest):
        if "c" in s[1] and "c" not in prov:
            prov["c"] = i
        if "l" in s[1] and "l" not in prov:
            prov["l"] = i
    kept = sorted(set(prov.values()))
    if len(kept) < 2:
        return None
    if sib != "absent":
        fkind = sib
    elif own in ("unparseable", "binary"):
        fkind = "none"
    else:
        fkind = own
    if fkind == "c" and prov.get("l") != kept[0]:
        return "closest-split"
    if fkind == "l" and prov.get("c") != kept[0]:
        return "closest-split"
    return None


def _pre(o, s, l0, l1, l2):
    return 0 <= o < len(OWN) and 0 <= s < len(SIB) and 0 <= l0 < 13 and 0 <= l1 < 13 and 0 <= l2 < 13


def _body(o, s, l0, l1, l2):
    own, sib, lv = scenario(o, s, l0, l1, l2)
    res, read = real(own, sib, lv)
    exp, must_read = model(own, sib, lv)
    ok = norm(res) == exp and (bool(read) == must_read)
    if ok:
        return True
    return known_key(own, sib, lv) in CARVE


def _ob(o: int, s: int, l0: int, l1: int, l2: int) -> bool:
    """
    pre: _pre(o, s, l0, l1, l2)
    post: _
    """
    return _body(o, s, l0, l1, l2)


def _ob_reach(o: int, s: int, l0: int, l1: int, l2: int) -> bool:
    """
    pre: _pre(o, s, l0, l1, l2)
    post: False
    """
    return _body(o, s, l0, l1, l2)


def explain(o, s, l0, l1, l2):
    own, sib, lv = scenario(o, s, l0, l1, l2)
    res, read = real(own, sib, lv)
    exp, must_read = model(own, sib, lv)
    return {"own": own, "sibling": sib, "levels": lv, "dirs": DIRS, "got": norm(res), "expected": exp, "file_read": bool(read), "file_must_be_read": must_read, "known_key": known_key(own, sib, lv)}


# ------------------------------------------------------------------ two tables in one REUSE.toml: last match wins
def _two(t1, t2, o, m1, m2):
    if PARAMS.get("m1") is not None:
        m1, m2 = bool(PARAMS["m1"]), bool(PARAMS["m2"])
    s1 = SHAPES[1 + _pick(t1, 12)]
    s2 = SHAPES[1 + _pick(t2, 12)]
    own = OWN[_pick(o, int(PARAMS.get('own_n', 4)))]
    g1 = ("**" if not PARAMS.get("literal_first") else "a/b/f.py") if m1 else "nomatch/**"
    g2 = "a/b/*.py" if m2 else "nomatch.py"
    toml = ReuseTOML(version=1, source=str(ROOT / "REUSE.toml"), annotations=[_item(0, s1[0], s1[1], g1, tag=0), _item(0, s2[0], s2[1], g2, tag="t2")])
    gl = NestedReuseTOML(reuse_tomls=[toml], source=str(ROOT))
    project = pj.Project(ROOT, vcs_strategy=None, global_licensing=gl, license_map={}, licenses={})
    saved = (pj.reuse_info_of_file, pj.is_binary, pj._determine_license_path)
    pj.reuse_info_of_file = lambda p, op, r: _info_of(own, "own", p, op)
    pj.is_binary = lambda p: False
    pj._determine_license_path = lambda p: Path(p)
    try:
        res = project.reuse_info_of(FILE)
    finally:
        pj.reuse_info_of_file, pj.is_binary, pj._determine_license_path = saved
    # model: the winning table is t2 if it matches, else t1 if it matches, else none
    if m2:
        win, tag = s2, "t2"
    elif m1:
        win, tag = s1, 0
    else:
        win, tag = None, None
    lv = [win, None, None]
    exp, _ = model(own, "absent", lv)
    if tag == "t2":
        exp = sorted((a, b, tuple(x.replace("L0", "Lt2") for x in c), tuple(LIC["t2"] if x == LIC[0] else x for x in l), p) for a, b, c, l, p in exp)
    return norm(res), exp, {"table1": s1, "table2": s2, "match1": bool(m1), "match2": bool(m2), "own": own}


def _last(t1: int, t2: int, o: int, m1: bool, m2: bool) -> bool:
    """
    pre: 0 <= t1 < 12 and 0 <= t2 < 12 and 0 <= o < 4
    post: _
    """
    got, exp, _ = _two(t1, t2, o, m1, m2)
    return got == exp


def _last_reach(t1: int, t2: int, o: int, m1: bool, m2: bool) -> bool:
    """
    pre: 0 <= t1 < 12 and 0 <= t2 < 12 and 0 <= o < 4
    post: False
    """
    got, exp, _ = _two(t1, t2, o, m1, m2)
    return got == exp


def explain_last(t1, t2, o, m1, m2):
    got, exp, d = _two(t1, t2, o, m1, m2)
    d.update({"got": got, "expected": exp})
    return d


# ------------------------------------------------------------------ .reuse/dep5: always aggregate
from debian.copyright import Copyright  # noqa: E402

_DEP5_TEXT = """Format: https://www.debian.org/doc/packaging-manuals/copyright-format/1.0/

Files: %s
Copyright: 2019 Dep5 Holder
 2018 Other Holder
License: ISC
"""
DEP5 = {True: ReuseDep5("/proj/.reuse/dep5", Copyright(_DEP5_TEXT % "a/*")), False: ReuseDep5("/proj/.reuse/dep5", Copyright(_DEP5_TEXT % "zzz/*"))}


def _dep5_case(o, s, m):
    own = OWN[_pick(o, len(OWN))]
    sib = SIB[_pick(s, len(SIB))]
    m = bool(m)
    project = pj.Project(ROOT, vcs_strategy=None, global_licensing=DEP5[m], license_map={}, licenses={})
    read = []

    def fake_reader(path, original_path, root):
        read.append(str(path))
        if Path(path).suffix == ".license":
            return _info_of(sib, "sib", path, original_path)
        return _info_of("none" if own in ("unparseable", "binary") else own, "own", path, original_path)

    saved = (pj.reuse_info_of_file, pj.is_binary, pj._determine_license_path)
    pj.reuse_info_of_file = fake_reader
    pj.is_binary = lambda p: own == "binary" and not str(p).endswith(".license")
    pj._determine_license_path = lambda p: Path(f"{p}.license") if sib != "absent" else Path(p)
    try:
        res = project.reuse_info_of(FILE)
    finally:
        pj.reuse_info_of_file, pj.is_binary, pj._determine_license_path = saved
    exp, must_read = model(own, sib, [None, None, None])
    if m:
        exp = sorted(exp + [(".reuse/dep5", "dep5", ("2018 Other Holder", "2019 Dep5 Holder"), ("ISC",), "a/b/f.py")])
    return norm(res), exp, bool(read), must_read, {"own": own, "sibling": sib, "dep5_matches": m}


def _dep5(o: int, s: int, m: bool) -> bool:
    """
    pre: 0 <= o < 6 and 0 <= s < 5
    post: _
    """
    got, exp, read, must, _ = _dep5_case(o, s, m)
    return got == exp and read == must


def _dep5_reach(o: int, s: int, m: bool) -> bool:
    """
    pre: 0 <= o < 6 and 0 <= s < 5
    post: False
    """
    got, exp, read, must, _ = _dep5_case(o, s, m)
    return got == exp and read == must


def explain_dep5(o, s, m):
    got, exp, read, must, d = _dep5_case(o, s, m)
    d.update({"got": got, "expected": exp, "file_read": read, "file_must_be_read": must})
    return d


M1 = PARAMS.get("m1")
M2 = PARAMS.get("m2")
EXPLAIN = {"_ob": explain, "_last": explain_last, "_dep5": explain_dep5}


# ------------------------------------------------------------------ C14: order of NestedReuseTOML.reuse_tomls does not matter
PERMS3 = [(0, 1, 2), (0, 2, 1), (1, 0, 2), (1, 2, 0), (2, 0, 1), (2, 1, 0)]


def _order_story(o, l0, l1, l2, pm):
    own = OWN[_pick(o, int(PARAMS.get("own_n", 4)))]
    lv = [SHAPES[FIXED[i]] if FIXED[i] is not None else SHAPES[_pick(x, len(SHAPES))] for i, x in enumerate((l0, l1, l2))]
    perm = PERMS3[_pick_from(pm, PARAMS.get("perms", [1, 2, 3, 4, 5]))]

    def run(order):
        tomls = [TOMLS[(i, lv[i])] for i in order if lv[i] is not None]
        gl = NestedReuseTOML(reuse_tomls=tomls, source=str(ROOT)) if tomls else None
        project = pj.Project(ROOT, vcs_strategy=None, global_licensing=gl, license_map={}, licenses={})
        saved = (pj.reuse_info_of_file, pj.is_binary, pj._determine_license_path)
        pj.reuse_info_of_file = lambda p, op, r: _info_of(own, "own", p, op)
        pj.is_binary = lambda p: False
        pj._determine_license_path = lambda p: Path(p)
        try:
            return norm(project.reuse_info_of(FILE))
        finally:
            pj.reuse_info_of_file, pj.is_binary, pj._determine_license_path = saved

    a, b = run((0, 1, 2)), run(perm)
    return a == b, {"own": own, "levels": lv, "order": list(perm), "identity": a, "permuted": b}


def _order(o: int, l0: int, l1: int, l2: int, pm: int) -> bool:
    """
    pre: 0 <= o < int(PARAMS.get("own_n", 4)) and 0 <= l0 < 13 and 0 <= l1 < 13 and 0 <= l2 < 13 and pm in PARAMS.get("perms", [1, 2, 3, 4, 5])
    post: _
    """
    return _order_story(o, l0, l1, l2, pm)[0]


def _order_reach(o: int, l0: int, l1: int, l2: int, pm: int) -> bool:
    """
    pre: 0 <= o < int(PARAMS.get("own_n", 4)) and 0 <= l0 < 13 and 0 <= l1 < 13 and 0 <= l2 < 13 and pm in PARAMS.get("perms", [1, 2, 3, 4, 5])
    post: False
    """
    return _order_story(o, l0, l1, l2, pm)[0]


def explain_order(*a):
    return _order_story(*a)[1]


EXPLAIN["_order"] = explain_order


# ------------------------------------------------------------------ two look-ups on one Project: no state carried over
FILE_B = ROOT / "a" / "b" / "g.py"
FILE_C = ROOT / "c" / "h.py"  # only the root REUSE.toml is above this one


def _twice_story(oa, ob, l0, l1):
    own_a = OWN[_pick(oa, 4)]
    own_b = OWN[_pick(ob, 4)]
    lv = [SHAPES[FIXED[0]] if FIXED[0] is not None else SHAPES[_pick(l0, 13)], SHAPES[_pick(l1, 13)], None]
    tomls = fresh_tomls([tuple(s) if s is not None else None for s in lv])
    gl = NestedReuseTOML(reuse_tomls=list(reversed(tomls)), source=str(ROOT)) if tomls else None
    project = pj.Project(ROOT, vcs_strategy=None, global_licensing=gl, license_map={}, licenses={})

    def fake_reader(path, original_path, root):
        kind = own_a if str(path).endswith("f.py") else own_b
        return _info_of(kind, "own", path, original_path)

    saved = (pj.reuse_info_of_file, pj.is_binary, pj._determine_license_path)
    pj.reuse_info_of_file = fake_reader
    pj.is_binary = lambda p: False
    pj._determine_license_path = lambda p: Path(p)
    try:
        first = norm(project.reuse_info_of(FILE))
        second = norm(project.reuse_info_of(FILE_B))
        third = norm(project.reuse_info_of(FILE_C))
        again = norm(project.reuse_info_of(FILE))
    finally:
        pj.reuse_info_of_file, pj.is_binary, pj._determine_license_path = saved
    exp_b, _ = model(own_b, "absent", lv)
    exp_b = sorted((a, b2, c, l, "a/b/g.py") if p == "a/b/f.py" else (a, b2, c, l, p) for a, b2, c, l, p in [(x[0].replace("f.py", "g.py") if x[0] else x[0], x[1], x[2], x[3], x[4]) for x in exp_b])
    exp_c, _ = model(own_b, "absent", [lv[0], None, None])
    exp_c = sorted(((x[0].replace("a/b/f.py", "c/h.py") if x[0] else x[0]), x[1], x[2], x[3], "c/h.py") for x in exp_c)
    ok = second == exp_b and again == first and third == exp_c
    if not ok and known_key(own_b, "absent", lv) in CARVE and again == first:
        ok = True
    if not ok and known_key(own_a, "absent", lv) in CARVE and second == exp_b:
        ok = True
    return ok, {"own_first": own_a, "own_second": own_b, "levels": lv, "first": first, "second": second, "second_expected": exp_b, "third(c/h.py)": third, "third_expected": exp_c, "first_again": again}


def _twice(oa: int, ob: int, l0: int, l1: int) -> bool:
    """
    pre: 0 <= oa < 4 and 0 <= ob < 4 and 0 <= l0 < 13 and 0 <= l1 < 13
    post: _
    """
    return _twice_story(oa, ob, l0, l1)[0]


def _twice_reach(oa: int, ob: int, l0: int, l1: int) -> bool:
    """
    pre: 0 <= oa < 4 and 0 <= ob < 4 and 0 <= l0 < 13 and 0 <= l1 < 13
    post: False
    """
    return _twice_story(oa, ob, l0, l1)[0]


def explain_twice(*a):
    return _twice_story(*a)[1]


EXPLAIN["_twice"] = explain_twice


# ------------------------------------------------------------------ C14: the spelling of the root does not matter
ROOT_SPELLINGS = ["/proj", ".", "proj", "../proj", "./proj/../proj"]
DIR_NAMES = ["a", "+a", "(a)", "-a", "#a", "_a", "~a"]


@native
def _spell_objects(root, dname, s0, s1):
    from pathlib import Path as _P

    tomls = []
    if s0 is not None:
        tomls.append(ReuseTOML(version=1, source=str(_P(root) / "REUSE.toml"), annotations=[_item(0, s0[0], s0[1])]))
    if s1 is not None:
        tomls.append(ReuseTOML(version=1, source=str(_P(root) / dname / "REUSE.toml"), annotations=[_item(1, s1[0], s1[1])]))
    return tomls


def _spell_story(r, d, o, l0, l1):
    own = OWN[_pick(o, 4)]
    dname = DIR_NAMES[_pick(d, len(DIR_NAMES))]
    s0 = SHAPES[_pick(l0, 13)]
    s1 = SHAPES[_pick(l1, 13)]
    spelled = ROOT_SPELLINGS[_pick(r, len(ROOT_SPELLINGS))]

    def run(root):
        tomls = _spell_objects(root, dname, s0, s1)
        gl = NestedReuseTOML(reuse_tomls=list(reversed(tomls)), source=str(Path(root))) if tomls else None
        if gl is None:
            return []
        res = gl.reuse_info_of(f"{dname}/f.py")
        out = []
        for prec, infos in sorted(res.items(), key=lambda kv: kv[0].value):
            for i in infos:
                out.append((prec.value, i.source_path, tuple(sorted(i.copyright_lines)), tuple(sorted(str(e) for e in i.spdx_expressions))))
        return out

    a, b = run("/proj"), run(spelled)
    return a == b, {"root": spelled, "dir": dname, "levels": [s0, s1], "absolute_root": a, "spelled_root": b}


def _spell(r: int, d: int, o: int, l0: int, l1: int) -> bool:
    """
    pre: (r == PARAMS["r"] if "r" in PARAMS else 0 <= r < len(ROOT_SPELLINGS)) and 0 <= d < len(DIR_NAMES) and o == 0 and 0 <= l0 < 13 and 0 <= l1 < 13
    post: _
    """
    return _spell_story(r, d, o, l0, l1)[0]


def _spell_reach(r: int, d: int, o: int, l0: int, l1: int) -> bool:
    """
    pre: (r == PARAMS["r"] if "r" in PARAMS else 0 <= r < len(ROOT_SPELLINGS)) and 0 <= d < len(DIR_NAMES) and o == 0 and 0 <= l0 < 13 and 0 <= l1 < 13
    post: False
    """
    return _spell_story(r, d, o, l0, l1)[0]


def explain_spell(*a):
    return _spell_story(*a)[1]


EXPLAIN["_spell"] = explain_spell


# ------------------------------------------------------------------ with the REAL reader below Project.reuse_info_of
# (the other obligations stub reuse_info_of_file by its contract; here its contract is part of what is checked:
# a file holding only a contributor, or an unparseable expression, counts as a file without information)
import io as _io  # noqa: E402
from pathlib import PurePosixPath as _PPP  # noqa: E402

import reuse.extract as _ex  # noqa: E402

REAL_READER = _ex.reuse_info_of_file
RR_KINDS = ["none", "c", "l", "cl", "contributor-only", "contributor+c", "unparseable", "empty"]
RR_TEXT = {
    "none": "x = 1\n",
    "c": "# SPDX-FileCopyrightText: 2021 own\n\nx = 1\n",
    "l": "# SPDX-License-Identifier: 0BSD\n\nx = 1\n",
    "cl": "# SPDX-FileCopyrightText: 2021 own\n#\n# SPDX-License-Identifier: 0BSD\n\nx = 1\n",
    "contributor-only": "# SPDX-FileContributor: Alice Example\n\nx = 1\n",
    "contributor+c": "# SPDX-FileCopyrightText: 2021 own\n# SPDX-FileContributor: Alice Example\n\nx = 1\n",
    "unparseable": "# SPDX-FileCopyrightText: 2021 own\n# SPDX-License-Identifier: MIT AND\n",
    "empty": "",
}
RR_AS = {"none": "none", "c": "c", "l": "l", "cl": "cl", "contributor-only": "none", "contributor+c": "c", "unparseable": "none", "empty": "none"}


class _BytesPath:
    def __init__(self, p, data):
        self.p, self.data = str(p), data

    @property
    def suffix(self):
        return _PPP(self.p).suffix

    def open(self, mode="rb"):
        return _io.BytesIO(self.data)

    def __str__(self):
        return self.p

    def __fspath__(self):
        return self.p


def rr_story(k, l0, l1):
    kind = RR_KINDS[_pick(k, len(RR_KINDS))]
    lv = [SHAPES[FIXED[0]] if FIXED[0] is not None else SHAPES[_pick(l0, 13)], SHAPES[_pick(l1, 13)], None]
    tomls = fresh_tomls([tuple(s) if s is not None else None for s in lv])
    gl = NestedReuseTOML(reuse_tomls=list(reversed(tomls)), source=str(ROOT)) if tomls else None
    project = pj.Project(ROOT, vcs_strategy=None, global_licensing=gl, license_map={}, licenses={})
    data = RR_TEXT[kind].encode("utf-8")

    def reader(path, original_path, root):
        saved = (_ex.Path, _ex.relative_from_root)
        _ex.Path = lambda p: _BytesPath(p, data)
        _ex.relative_from_root = lambda p, r: _PPP(str(p)).relative_to(str(r))
        try:
            return REAL_READER(path, original_path, root)
        finally:
            _ex.Path, _ex.relative_from_root = saved

    saved = (pj.reuse_info_of_file, pj.is_binary, pj._determine_license_path)
    pj.reuse_info_of_file = reader
    pj.is_binary = lambda p: False
    pj._determine_license_path = lambda p: Path(p)
    try:
        res = project.reuse_info_of(FILE)
    finally:
        pj.reuse_info_of_file, pj.is_binary, pj._determine_license_path = saved
    got = sorted((a, b, tuple(c.replace("SPDX-FileCopyrightText: ", "") for c in cs), ls, p) for a, b, cs, ls, p in norm(res))
    exp, _ = model(RR_AS[kind], "absent", lv)
    exp = sorted(exp)
    return got == exp, {"file_content": kind, "levels": lv, "got": got, "expected": exp}


def _rr(k: int, l0: int, l1: int) -> bool:
    """
    pre: 0 <= k < len(RR_KINDS) and 0 <= l0 < 13 and 0 <= l1 < 13
    post: _
    """
    return rr_story(k, l0, l1)[0]


def _rr_reach(k: int, l0: int, l1: int) -> bool:
    """
    pre: 0 <= k < len(RR_KINDS) and 0 <= l0 < 13 and 0 <= l1 < 13
    post: False
    """
    return rr_story(k, l0, l1)[0]


def explain_rr(*a):
    return rr_story(*a)[1]


EXPLAIN["_rr"] = explain_rr
