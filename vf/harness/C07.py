"""C07 harness: what annotate writes, the linter reads back.

Real code: header._create_new_header (render -> comment -> re-extract -> compare),
CommentStyle.create_comment (_single/_multi) of every style, extract.extract_reuse_info /
find_spdx_tag with the real patterns (PYRE), copyright.make_copyright_line.
Stubbed: the Jinja template (a Python object with the same render() signature; the default-template
model is validated against the real DEFAULT_TEMPLATE on every run by the check)."""
from vf.harness.common import PARAMS, NativeLicensing
from vf.pyre import PyRe

import reuse.comment as cm
import reuse.copyright as cr
import reuse.extract as ex
import reuse.header as hd
from reuse import ReuseInfo
from reuse.exceptions import CommentCreateError, MissingReuseInfoError

ex._LICENSE_IDENTIFIER_PATTERN = PyRe(ex._LICENSE_IDENTIFIER_PATTERN)
ex._CONTRIBUTOR_PATTERN = PyRe(ex._CONTRIBUTOR_PATTERN)
ex._SPDX_TAGS = {"spdx_expressions": ex._LICENSE_IDENTIFIER_PATTERN, "contributor_lines": ex._CONTRIBUTOR_PATTERN}
ex._COPYRIGHT_PATTERNS = [PyRe(p) for p in ex._COPYRIGHT_PATTERNS]
cr._COPYRIGHT_PATTERNS = ex._COPYRIGHT_PATTERNS
ex._LICENSING = NativeLicensing(ex._LICENSING)
for _c in cm._all_style_classes():
    if _c.SINGLE_LINE_REGEXP is not None:
        _c.SINGLE_LINE_REGEXP = PyRe(_c.SINGLE_LINE_REGEXP)

STYLE = getattr(cm, PARAMS.get("style", "PythonCommentStyle"))
MULTI = bool(PARAMS.get("multi", False))
TEMPLATE = PARAMS.get("template", "default")  # default | no-licence | no-copyright | no-contributors | nothing | commented
PREFIX = PARAMS.get("prefix", "spdx")
YEAR = PARAMS.get("year")
CARRIER = PARAMS.get("carrier", "Jane Doe")
HOLE = PARAMS.get("hole", "end")
NFREE = int(PARAMS.get("nfree", 1))
WHERE = PARAMS.get("where", "holder")  # which requested item carries the free characters: holder | contributor
EXPRS = PARAMS.get("exprs", ["GPL-3.0-or-later"])
CARVE = set(PARAMS.get("carve", []))


class TemplateModel:
    """Same render() contract as a jinja2 Template; behaviours mirror the property's template classes."""

    def __init__(self, kind):
        self.kind = kind

    def render(self, copyright_lines=(), contributor_lines=(), spdx_expressions=()):
        k = self.kind
        if k == "default":
            # exactly the bundled default_template.jinja2 (validated against it on every run)
            return (
                "".join(f"{ln}\n" for ln in copyright_lines)
                + "".join(f"SPDX-FileContributor: {ln}\n" for ln in contributor_lines)
                + "\n"
                + "".join(f"SPDX-License-Identifier: {e}\n" for e in spdx_expressions)
            )
        if k == "extra-copyright-no-licence":
            return "".join(f"{ln}\n" for ln in copyright_lines) + "SPDX-FileCopyrightText: ACME Corp\n"
        if k == "extra-licence-no-copyright":
            return "".join(f"SPDX-License-Identifier: {e}\n" for e in spdx_expressions) + "SPDX-License-Identifier: CC0-1.0\n"
        out = []
        if k not in ("no-copyright", "nothing"):
            for ln in copyright_lines:
                out.append(f"{ln}")
        if k not in ("no-contributors", "nothing") and contributor_lines:
            if out:
                out.append("")
            for ln in contributor_lines:
                out.append(f"SPDX-FileContributor: {ln}")
        if k not in ("no-licence", "nothing") and spdx_expressions:
            if out:
                out.append("")
            for e in spdx_expressions:
                out.append(f"SPDX-License-Identifier: {e}")
        text = "\n".join(out) + "\n"
        if k == "commented":
            text = "\n".join(("# " + l if l else "#") for l in text.rstrip("\n").split("\n")) + "\n"
        return text


def _is_space_cp(c):
    return (c == 32) | ((c >= 9) & (c <= 13)) | ((c >= 28) & (c <= 31)) | (c == 133) | (c == 160) | (c == 5760) | ((c >= 8192) & (c <= 8202)) | (c == 8232) | (c == 8233) | (c == 8239) | (c == 8287) | (c == 12288)


def _is_linebreak_cp(c):
    return (c == 10) | (c == 11) | (c == 12) | (c == 13) | ((c >= 28) & (c <= 30)) | (c == 133) | (c == 8232) | (c == 8233)


def _pre(c0, c1):
    lo, hi = PARAMS.get("c0_range", [0, 0x110000])
    if not (lo <= c0 < hi) or (0xD800 <= c0 <= 0xDFFF):
        return False
    if NFREE == 2:
        if not (0 <= c1 < 0x110000) or (0xD800 <= c1 <= 0xDFFF):
            return False
    elif c1 != 0:
        return False
    if _is_linebreak_cp(c0) or (NFREE == 2 and _is_linebreak_cp(c1)):
        return False
    if HOLE == "start" and _is_space_cp(c0):
        return False
    if HOLE == "end" and _is_space_cp(c1 if NFREE == 2 else c0):
        return False
    return True


def text_of(c0, c1):
    free = chr(c0) + (chr(c1) if NFREE == 2 else "")
    if HOLE == "start":
        return free + CARRIER
    if HOLE == "mid":
        k = len(CARRIER) // 2
        return CARRIER[:k] + free + CARRIER[k:]
    return CARRIER + free


def read_back(text):
    """The tool's own reader, list-valued (no hashing of symbolic strings)."""
    text = ex.filter_ignore_block(text)
    lic = list(ex.find_spdx_tag(text, ex._LICENSE_IDENTIFIER_PATTERN))
    con = list(ex.find_spdx_tag(text, ex._CONTRIBUTOR_PATTERN))
    cop = []
    for line in text.splitlines():
        for p in ex._COPYRIGHT_PATTERNS:
            m = p.search(line)
            if m is not None:
                cop.append(m.groupdict()["copyright"].strip())
                break
    return cop, lic, con


class ListSet(list):
    """A 'set' that never hashes: ReuseInfo's fields only need iteration, sorted(), != and truthiness here."""

    def __eq__(self, other):
        a, b = list(self), list(other)
        return len(a) == len(b) and all(x in b for x in a) and all(x in a for x in b)

    def __ne__(self, other):
        return not self.__eq__(other)

    __hash__ = None

    def add(self, x):
        if x not in self:
            self.append(x)

    def union(self, *others):
        out = ListSet(self)
        for other in others:
            for x in other:
                out.add(x)
        return out

    __or__ = union

    def difference(self, other):
        o = list(other)
        return ListSet([x for x in self if x not in o])

    __sub__ = difference

    def intersection(self, other):
        o = list(other)
        return ListSet([x for x in self if x in o])

    __and__ = intersection

    def symmetric_difference(self, other):
        return self.difference(other).union(ListSet(list(other)).difference(self))

    __xor__ = symmetric_difference

    def issubset(self, other):
        o = list(other)
        return all(x in o for x in self)

    __le__ = issubset

    def issuperset(self, other):
        return all(x in self for x in other)

    __ge__ = issuperset

    def copy(self):
        return ListSet(self)

    def discard(self, x):
        if x in self:
            self.remove(x)

    def update(self, *others):
        for other in others:
            for x in other:
                self.add(x)


def story(c0, c1):
    free_text = text_of(c0, c1)
    holder = free_text if WHERE == "holder" else CARRIER
    contributor = free_text if WHERE == "contributor" else "Alice Example"
    line = cr.make_copyright_line(holder, YEAR, PREFIX)
    exprs = [ex._LICENSING.parse(e) for e in EXPRS]
    info = ReuseInfo(spdx_expressions=ListSet(exprs), copyright_lines=ListSet([line]), contributor_lines=ListSet([contributor]))
    tmpl = TemplateModel(TEMPLATE)
    try:
        result = hd._create_new_header(info, template=tmpl, template_is_commented=(TEMPLATE == "commented"), style=STYLE, force_multi=MULTI)
    except (CommentCreateError, MissingReuseInfoError):
        return "refused", holder, contributor, line, None, None
    cop, lic, con = read_back(result)
    want_con = [] if TEMPLATE in ("no-contributors", "nothing") else [contributor]
    ok = cop == [line] and sorted(lic) == sorted(EXPRS) and con == want_con
    return ("ok" if ok else "unreadable"), holder, contributor, line, result, (cop, lic, con)


import re as _re

END_ONLY = PyRe(_re.compile(ex._END_PATTERN.pattern if hasattr(ex._END_PATTERN, "pattern") else ex._END_PATTERN))


def _line_prefix():
    if TEMPLATE == "commented":
        return "# "
    if MULTI or not STYLE.can_handle_single():
        return STYLE.INDENT_BEFORE_MIDDLE + STYLE.MULTI_LINE.middle + STYLE.INDENT_AFTER_MIDDLE
    return STYLE.SINGLE_LINE + STYLE.INDENT_AFTER_SINGLE


def known_key(outcome, c0, c1):
    """Carve-outs (DESIGN §2.8).  (1) a template that drops exactly one kind is accepted because the
    post-render check joins its two comparisons with 'and';  (2) with a faithful template, a value the
    READER truncates (it ends like a comment terminator, or like the mirrored line prefix - C02's
    findings) is written all the same, for the same reason.  Nothing else is excused."""
    if outcome != "unreadable":
        return None
    if TEMPLATE in ("no-licence", "no-copyright"):
        return "post-render-check-uses-and"
    if TEMPLATE in ("default", "commented", "no-contributors"):
        value = text_of(c0, c1)
        m = END_ONLY.search(value)
        if m is not None and m.start() < len(value):
            return "written-header-reads-back-differently"
        pre = _line_prefix().strip()
        if WHERE == "contributor" and pre and value.endswith(pre[::-1]):
            return "written-header-reads-back-differently"
        if WHERE == "holder":
            for p in ex._COPYRIGHT_PATTERNS:
                m2 = p.search(value)
                if m2 is not None and m2.start() > 0:
                    # the holder itself contains a copyright marker ('Jane© Doe'): make_copyright_line keeps it
                    # verbatim as "already a notice", the reader starts the notice at the marker ('© Doe')
                    return "holder-contains-copyright-marker"
        if WHERE == "contributor":
            for p in ex._COPYRIGHT_PATTERNS:
                if p.search(value) is not None:
                    # the copyright patterns are searched anywhere in every line: a contributor (or any text)
                    # containing '© ', 'Copyright ' ... is ALSO read as a copyright notice
                    return "contributor-text-read-as-copyright"
    return None


def _body(c0, c1):
    outcome = story(c0, c1)[0]
    if outcome in ("ok", "refused"):
        return True
    return known_key(outcome, c0, c1) in CARVE


def _hdr(c0: int, c1: int) -> bool:
    """
    pre: _pre(c0, c1)
    post: _
    """
    return _body(c0, c1)


def _hdr_reach(c0: int, c1: int) -> bool:
    """
    pre: _pre(c0, c1)
    post: False
    """
    return _body(c0, c1)


def explain_hdr(c0, c1):
    outcome, holder, contributor, line, result, back = story(c0, c1)
    return {"style": STYLE.__name__, "multi": MULTI, "template": TEMPLATE, "prefix": PREFIX, "year": YEAR, "holder": holder, "contributor": contributor, "requested_notice": line, "expressions": EXPRS, "outcome": outcome, "header": result, "read_back": back, "known_key": known_key(outcome, c0, c1)}


EXPLAIN = {"_hdr": explain_hdr}


# ------------------------------------------------------------------ real Jinja templates render the request verbatim
import os as _os  # noqa: E402
from pathlib import Path as _Path  # noqa: E402

import reuse.cli.annotate as _ca  # noqa: E402
from vf.harness.common import native  # noqa: E402

FIXTURE = _Path(_os.path.join(_os.path.dirname(_os.path.dirname(_os.path.abspath(__file__))), "fixtures", "proj"))


class _FixtureProject:
    root = FIXTURE


@native
def _render_real(which, c):
    ch = chr(c)
    holder = f"Jane {ch} Doe <jane{ch}@example.org>"
    contributor = f"Smith {ch} Sons"
    line = cr.make_copyright_line(holder, "2020", "spdx")
    if which == 0:
        template, commented = hd.DEFAULT_TEMPLATE, False
    else:
        template, commented = _ca.get_template(["", "custom", "boxed"][which], _FixtureProject)
    rendered = template.render(copyright_lines=[line], contributor_lines=[contributor], spdx_expressions=["MIT"])
    lines = [l[2:] if commented and l.startswith("# ") else l for l in rendered.split("\n")]
    return (line in lines) and (f"SPDX-FileContributor: {contributor}" in lines) and ("SPDX-License-Identifier: MIT" in lines) and (commented == (which == 2)), holder, rendered


def _jinja(which: int, c: int) -> bool:
    """
    pre: 0 <= which < 3 and 32 <= c < 127
    post: _
    """
    return _render_real(which, c)[0]


def _jinja_reach(which: int, c: int) -> bool:
    """
    pre: 0 <= which < 3 and 32 <= c < 127
    post: False
    """
    return _render_real(which, c)[0]


def explain_jinja(which, c):
    ok, holder, rendered = _render_real(which, c)
    return {"template": ["default", "custom (project template)", "boxed.commented (project template)"][which], "character": chr(c), "holder": holder, "rendered": rendered}


EXPLAIN["_jinja"] = explain_jinja
