"""C12 harness: ignore blocks hide exactly what they enclose."""
from vf.harness.common import PARAMS, NativeLicensing

from reuse import extract as ex
from reuse.extract import REUSE_IGNORE_END as E
from reuse.extract import REUSE_IGNORE_START as S
from reuse.extract import filter_ignore_block

# licence expressions are concrete on every path of the composition harness: parse them natively
ex._LICENSING = NativeLicensing(ex._LICENSING)

SHAPE = PARAMS.get("shape", "SCE")  # string over S (start), E (end), C (chunk)
CHUNK = int(PARAMS.get("chunk", 2))


def ref(text):
    """Reference scanner written from the statement: drop [START .. next END] (END
    inclusive), or [START .. end of text] when no END follows; anything else is kept."""
    out = []
    i = 0
    while True:
        j = text.find(S, i)
        if j < 0:
            out.append(text[i:])
            break
        out.append(text[i:j])
        k = text.find(E, j + len(S))
        if k < 0:
            break
        i = k + len(E)
    return "".join(out)


def build(c0, c1, c2, c3):
    chunks = [c0, c1, c2, c3]
    parts = []
    n = 0
    for ch in SHAPE:
        if ch == "S":
            parts.append(S)
        elif ch == "E":
            parts.append(E)
        else:
            parts.append(chunks[n])
            n += 1
    return "".join(parts)


def _pre(c0, c1, c2, c3):
    chunks = [c0, c1, c2, c3]
    used = SHAPE.count("C")
    for i, c in enumerate(chunks):
        if i < used:
            if len(c) > CHUNK:
                return False
        elif c != "":
            return False
    return True


def _body(c0, c1, c2, c3):
    t = build(c0, c1, c2, c3)
    return filter_ignore_block(t) == ref(t)


def _ob(c0: str, c1: str, c2: str, c3: str) -> bool:
    """
    pre: _pre(c0, c1, c2, c3)
    post: _
    """
    return _body(c0, c1, c2, c3)


def _ob_reach(c0: str, c1: str, c2: str, c3: str) -> bool:
    """
    pre: _pre(c0, c1, c2, c3)
    post: False
    """
    return _body(c0, c1, c2, c3)


def explain(c0, c1, c2, c3):
    t = build(c0, c1, c2, c3)
    return {"text": t, "expected": ref(t), "got": filter_ignore_block(t)}


# ------------------------------------------------------------------ composition with the tag reader
LICS = ["MIT", "0BSD", "ISC", "Zlib", "curl"]
NTOK = int(PARAMS.get("ntok", 3))
FIRST = PARAMS.get("first")  # fix the first token kind (splits the condition)
KINDS = ["S", "E", "L", "P", "F", "T", "N"]  # start, end, licence, copyright, contributor, text, newline


def _tok(kind, i):
    if kind == "S":
        return S
    if kind == "E":
        return E
    if kind == "L":
        return f"# SPDX-License-Identifier: {LICS[i]}\n"
    if kind == "P":
        return f"# SPDX-FileCopyrightText: 20{i}0 Holder{i}\n"
    if kind == "F":
        return f"# SPDX-FileContributor: Contributor{i}\n"
    if kind == "T":
        return " some text "
    return "\n"


def _concretise(k):
    # branch a symbolic int to a concrete one
    for v in range(len(KINDS)):
        if k == v:
            return v
    return 0


def _seq(k0, k1, k2, k3):
    kinds = []
    for i, k in enumerate((k0, k1, k2, k3)[:NTOK]):
        if i == 0 and FIRST is not None:
            kinds.append(FIRST)  # k0 is not looked at: no branching on it
        else:
            kinds.append(KINDS[_concretise(k)])
    return kinds


def _expected(kinds):
    """Which tokens are visible, by the statement."""
    vis = []
    hidden = False
    for i, k in enumerate(kinds):
        if hidden:
            if k == "E":
                hidden = False
            continue
        if k == "S":
            hidden = True
            continue
        vis.append(i)
    lic = {LICS[i] for i in vis if kinds[i] == "L"}
    cop = {f"SPDX-FileCopyrightText: 20{i}0 Holder{i}" for i in vis if kinds[i] == "P"}
    con = {f"Contributor{i}" for i in vis if kinds[i] == "F"}
    return lic, cop, con


def _pre2(k0, k1, k2, k3):
    n = len(KINDS)
    return 0 <= k0 < n and 0 <= k1 < n and 0 <= k2 < n and 0 <= k3 < n


def _body2(k0, k1, k2, k3):
    kinds = _seq(k0, k1, k2, k3)
    text = "".join(_tok(k, i) for i, k in enumerate(kinds))
    info = ex.extract_reuse_info(text)
    lic, cop, con = _expected(kinds)
    return (
        {str(e) for e in info.spdx_expressions} == lic
        and set(info.copyright_lines) == cop
        and set(info.contributor_lines) == con
    )


def _comp(k0: int, k1: int, k2: int, k3: int) -> bool:
    """
    pre: _pre2(k0, k1, k2, k3)
    post: _
    """
    return _body2(k0, k1, k2, k3)


def _comp_reach(k0: int, k1: int, k2: int, k3: int) -> bool:
    """
    pre: _pre2(k0, k1, k2, k3)
    post: False
    """
    return _body2(k0, k1, k2, k3)


def explain_comp(k0, k1, k2, k3):
    kinds = _seq(k0, k1, k2, k3)
    text = "".join(_tok(k, i) for i, k in enumerate(kinds))
    lic, cop, con = _expected(kinds)
    return {"text": text, "kinds": kinds, "expected": [sorted(lic), sorted(cop), sorted(con)]}


EXPLAIN = {"_ob": explain, "_ob_reach": explain, "_comp": explain_comp, "_comp_reach": explain_comp}
