"""C16 harness: malformed REUSE.toml content / failing inputs yield a diagnostic, never a crash."""
import datetime

from vf.harness.common import PARAMS, NativeLicensing

import click

import reuse.global_licensing as gl
from reuse.exceptions import (
    GlobalLicensingConflictError,
    GlobalLicensingParseError,
    GlobalLicensingParseTypeError,
    GlobalLicensingParseValueError,
)

gl._LICENSING = NativeLicensing(gl._LICENSING)

FOCUS = PARAMS.get("focus", "annotations")
FOCUS2 = PARAMS.get("focus2")
SOURCE = "sub/REUSE.toml"

STRS = ["", "x", "MIT", "MIT AND", "closest", "override", "**", "\\", "()", "MIT AND ()"]
INTS = [0, 1, 2, -1]
TAGS = ["absent", "str", "int", "float", "bool", "datetime", "list", "table"]
KEYS = ["version", "annotations", "path", "precedence", "SPDX-FileCopyrightText", "SPDX-License-Identifier"]
VALID = {
    "version": 1,
    "path": "src/**",
    "precedence": "aggregate",
    "SPDX-FileCopyrightText": "2020 Jane Doe",
    "SPDX-License-Identifier": "MIT",
}


DT = datetime.datetime(2020, 1, 2, 3, 4, 5)  # built at import time: a native datetime, not CrossHair's stand-in


class Absent:
    pass


ABSENT = Absent()


def _pick(i, n):
    for v in range(n):
        if i == v:
            return v
    return 0


def leaf(tag, si, ni):
    """A concrete leaf value of TOML type *tag* (si / ni choose the string / integer)."""
    if tag == "str":
        return STRS[_pick(si, len(STRS))]
    if tag == "int":
        return INTS[_pick(ni, len(INTS))]
    if tag == "float":
        return 1.5
    if tag == "bool":
        return True
    if tag == "datetime":
        return DT
    raise AssertionError(tag)


def value(t0, t1, t2, si, ni, key):
    """TOML value shape: outer tag t0; for list/table the element tag t1; nesting 2 uses t2."""
    tag0 = TAGS[_pick(t0, len(TAGS))]
    if tag0 == "absent":
        return ABSENT, "absent"
    if tag0 not in ("list", "table"):
        return leaf(tag0, si, ni), tag0
    tag1 = TAGS[_pick(t1, len(TAGS))]
    if tag1 == "absent":
        inner, sig1 = ABSENT, "empty"
    elif tag1 in ("list", "table"):
        tag2 = TAGS[_pick(t2, len(TAGS))]
        if tag2 in ("absent",):
            e2, sig2 = ABSENT, "empty"
        elif tag2 in ("list", "table"):
            e2, sig2 = ([] if tag2 == "list" else {}), tag2
        else:
            e2, sig2 = leaf(tag2, si, ni), tag2
        if key == "annotations" and tag1 == "table":
            # an [[annotations]] table: the focus is then which of its keys holds e2
            inner = dict(VALID)
            inner.pop("version")
            if e2 is not ABSENT:
                inner[PARAMS.get("inner_key", "path")] = e2
            else:
                inner.pop(PARAMS.get("inner_key", "path"), None)
            sig1 = f"table({PARAMS.get('inner_key', 'path')}={sig2})"
        elif tag1 == "list":
            inner, sig1 = ([] if e2 is ABSENT else [e2]), f"list[{sig2}]"
        else:
            inner, sig1 = ({} if e2 is ABSENT else {"k": e2}), f"table{{{sig2}}}"
    else:
        inner, sig1 = leaf(tag1, si, ni), tag1
    if tag0 == "list":
        return ([] if inner is ABSENT else [inner]), f"list[{sig1}]"
    return ({} if inner is ABSENT else {"k": inner}), f"table{{{sig1}}}"


def document(t0, t1, t2, si, ni):
    """The dict a TOML parser would hand to from_dict, all keys valid except the focus key."""
    v, sig = value(t0, t1, t2, si, ni, FOCUS)
    ann = {k: VALID[k] for k in KEYS[2:]}
    doc = {"version": 1, "annotations": [ann]}
    if FOCUS in ("version", "annotations"):
        if v is ABSENT:
            doc.pop(FOCUS)
        else:
            doc[FOCUS] = v
    else:
        if v is ABSENT:
            ann.pop(FOCUS)
        else:
            ann[FOCUS] = v
    return doc, sig


def outcome(doc):
    """'ok' | 'diagnostic' | description of what escaped."""
    try:
        gl.ReuseTOML.from_dict(doc, SOURCE)
        return "ok"
    except GlobalLicensingParseError as e:
        if e.source != SOURCE:
            return f"diagnostic-without-file(source={e.source!r})"
        return "diagnostic"
    except Exception as e:  # noqa - anything else is a crash for the user
        return f"escaped:{type(e).__name__}"


def _pre(t0, t1, t2, si, ni):
    return 0 <= t0 < 8 and 0 <= t1 < 8 and 0 <= t2 < 8 and 0 <= si < len(STRS) and 0 <= ni < len(INTS)


CARVE = set(PARAMS.get("carve", []))  # keys of listed known findings to carve out (DESIGN §2.8)


def k_annotations_shape(doc):
    """Known finding: 'annotations' is present but is not an array of tables."""
    if "annotations" not in doc:
        return False
    a = doc["annotations"]
    return not isinstance(a, list) or any(not isinstance(x, dict) for x in a)


def k_unhashable_item(doc):
    """Known finding: path / copyright / licence value is an array holding an array or a table."""
    a = doc.get("annotations")
    if not isinstance(a, list):
        return False
    for x in a:
        if isinstance(x, dict):
            for k in ("path", "SPDX-FileCopyrightText", "SPDX-License-Identifier"):
                v = x.get(k)
                if isinstance(v, list) and any(isinstance(e, (list, dict)) for e in v):
                    return True
    return False


def known_key(doc, out):
    if out in ("escaped:TypeError", "escaped:AttributeError") and k_annotations_shape(doc):
        return "annotations-not-array-of-tables"
    if out == "escaped:TypeError" and k_unhashable_item(doc):
        return "unhashable-item-in-array"
    return None


def _body(t0, t1, t2, si, ni):
    doc, sig = document(t0, t1, t2, si, ni)
    out = outcome(doc)
    if out in ("ok", "diagnostic"):
        return True
    return known_key(doc, out) in CARVE


def _ob(t0: int, t1: int, t2: int, si: int, ni: int) -> bool:
    """
    pre: _pre(t0, t1, t2, si, ni)
    post: _
    """
    return _body(t0, t1, t2, si, ni)


def _ob_reach(t0: int, t1: int, t2: int, si: int, ni: int) -> bool:
    """
    pre: _pre(t0, t1, t2, si, ni)
    post: False
    """
    return _body(t0, t1, t2, si, ni)


def explain(t0, t1, t2, si, ni):
    doc, sig = document(t0, t1, t2, si, ni)
    out = outcome(doc)
    return {"focus": FOCUS, "inner_key": PARAMS.get("inner_key"), "sig": sig, "doc": repr(doc), "outcome": out, "known_key": known_key(doc, out)}


# ------------------------------------------------------------------ ClickObj.project funnel
import reuse.cli.common as cc  # noqa: E402
from pathlib import Path  # noqa: E402

EXCS = [
    lambda: GlobalLicensingParseError("bad", source="x/REUSE.toml"),
    lambda: GlobalLicensingParseTypeError("bad type", source="x/REUSE.toml"),
    lambda: GlobalLicensingParseValueError("bad value", source="x/REUSE.toml"),
    lambda: GlobalLicensingConflictError("both dep5 and REUSE.toml"),
    lambda: OSError("io"),
    lambda: FileNotFoundError("nf"),
    lambda: PermissionError("perm"),
    lambda: NotADirectoryError("nd"),
    lambda: IsADirectoryError("isdir"),
    lambda: UnicodeDecodeError("utf-8", b"\xff", 0, 1, "bad"),
]
# UnicodeDecodeError is listed although from_file maps it: from_directory documents only the
# first eight; index 9 is excluded by the precondition unless PARAMS says otherwise.
NEXC = int(PARAMS.get("nexc", 9))


def _project_outcome(which, has_root, sub, meson):
    i = _pick(which, NEXC)
    seen = {}

    def fake_from_directory(root, include_submodules=False, include_meson_subprojects=False):
        seen["args"] = (root, include_submodules, include_meson_subprojects)
        raise EXCS[i]()

    real = cc.Project.from_directory
    cc.Project.from_directory = staticmethod(fake_from_directory)
    real_find, real_cwd = cc.find_root, Path.cwd
    cc.find_root = lambda: None
    try:
        obj = cc.ClickObj(root=Path("/proj") if has_root else None, include_submodules=bool(sub), include_meson_subprojects=bool(meson))
        try:
            obj.project
            return "returned"
        except click.UsageError as e:
            msg = e.format_message()
            if i < 3 and "x/REUSE.toml" not in msg:
                return "usage-error-without-file"
            if seen.get("args", (None, None, None))[1:] != (bool(sub), bool(meson)):
                return "options-not-forwarded"
            return "usage-error"
        except Exception as e:  # noqa
            return f"escaped:{type(e).__name__}"
    finally:
        cc.Project.from_directory = real
        cc.find_root = real_find


def _proj(which: int, has_root: bool, sub: bool, meson: bool) -> bool:
    """
    pre: 0 <= which < NEXC
    post: _
    """
    return _project_outcome(which, has_root, sub, meson) == "usage-error"


def _proj_reach(which: int, has_root: bool, sub: bool, meson: bool) -> bool:
    """
    pre: 0 <= which < NEXC
    post: False
    """
    return _project_outcome(which, has_root, sub, meson) == "usage-error"


def explain_proj(which, has_root, sub, meson):
    return {"exception": type(EXCS[which]()).__name__, "has_root": has_root, "outcome": _project_outcome(which, has_root, sub, meson)}


# ------------------------------------------------------------------ from_toml: tomlkit.loads as a fault point
import inspect as _inspect  # noqa: E402

import tomlkit.exceptions as _tke  # noqa: E402


def _tk_instance(cls):
    """An instance of a tomlkit exception class, built from its own signature."""
    fill = {"line": 1, "col": 1, "char": "x", "type": "strings", "message": "m", "key": "path", "value": "v", "invalid_sequences": ["x"], "delimiter": '"'}
    try:
        names = [n for n in _inspect.signature(cls.__init__).parameters if n not in ("self", "args", "kwargs")]
        if names == ["line", "col", "char", "type"]:
            return cls(1, 1, 7, "strings")
        return cls(*[fill[n] for n in names])
    except Exception:  # noqa
        return cls("x")


# every class the installed tomlkit documents as "what loads() may raise": the subclasses of TOMLKitError
TK_CLASSES = [c for _, c in sorted(vars(_tke).items()) if isinstance(c, type) and issubclass(c, _tke.TOMLKitError)]
NTK = len(TK_CLASSES)


def _tk_outcome(which):
    i = _pick(which, NTK)

    def fake_loads(text):
        raise _tk_instance(TK_CLASSES[i])

    real = gl.tomlkit.loads
    gl.tomlkit.loads = fake_loads
    try:
        try:
            gl.ReuseTOML.from_toml("version = 1", SOURCE)
            return "returned"
        except GlobalLicensingParseError as e:
            return "diagnostic" if e.source == SOURCE else f"diagnostic-without-file(source={e.source!r})"
        except Exception as e:  # noqa
            return f"escaped:{type(e).__name__}"
    finally:
        gl.tomlkit.loads = real


def _tk(which: int) -> bool:
    """
    pre: 0 <= which < NTK
    post: _
    """
    return _tk_outcome(which) == "diagnostic"


def _tk_reach(which: int) -> bool:
    """
    pre: 0 <= which < NTK
    post: False
    """
    return _tk_outcome(which) == "diagnostic"


def explain_tk(which):
    return {"exception": TK_CLASSES[which].__name__, "outcome": _tk_outcome(which)}


# ------------------------------------------------------------------ per-file exception funnel
import reuse.report as rp  # noqa: E402

FILE_EXCS = [
    None,
    lambda: OSError("io"),
    lambda: PermissionError("perm"),
    lambda: FileNotFoundError("gone"),
    lambda: UnicodeDecodeError("utf-8", b"\xff", 0, 1, "bad"),
    lambda: ValueError("v"),
    lambda: KeyError("k"),
    lambda: RuntimeError("r"),
    lambda: RecursionError("deep"),
    lambda: MemoryError(),
    lambda: AttributeError("a"),
    lambda: TypeError("t"),
]
PATHS = [Path("/proj/a.py"), Path("/proj/sub/b c.py"), Path("/proj/z.txt")]
NFILES = int(PARAMS.get("nfiles", 2))
SUBSET = bool(PARAMS.get("subset", False))


class FakeProject:
    def __init__(self):
        self.root = Path("/proj")
        self.global_licensing = None
        self.licenses = {}
        self.license_map = {}
        self.licenses_without_extension = {}
        self.vcs_strategy = None
        self.include_submodules = False
        self.include_meson_subprojects = False

    def all_files(self, directory=None):
        return iter(PATHS[:NFILES])

    def subset_files(self, files, directory=None):
        return iter([p for p in PATHS[:NFILES] if p in files])


def _funnel_outcome(e0, e1, e2):
    es = [_pick(e, len(FILE_EXCS)) for e in (e0, e1, e2)[:NFILES]]

    def fake_generate(project, path, do_checksum=True, add_license_concluded=False):
        i = PATHS.index(Path(path))
        if FILE_EXCS[es[i]] is not None:
            raise FILE_EXCS[es[i]]()
        r = rp.FileReport(f"./{Path(path).relative_to('/proj')}", path, do_checksum=False)
        r.chk_sum = "0" * 40
        r.spdx_id = f"SPDXRef-{i}"
        r.licenses_in_file = ["MIT"]
        r.copyright = "2020 Jane"
        return r

    real = rp.FileReport.generate
    rp.FileReport.generate = staticmethod(fake_generate)
    try:
        try:
            if SUBSET:
                rep = rp.ProjectSubsetReport.generate(FakeProject(), PATHS[:NFILES], multiprocessing=False)
            else:
                rep = rp.ProjectReport.generate(FakeProject(), do_checksum=False, multiprocessing=False)
        except Exception as e:  # noqa
            return f"escaped:{type(e).__name__}"
        bad = {PATHS[i] for i, e in enumerate(es) if e != 0}
        good = {PATHS[i] for i, e in enumerate(es) if e == 0}
        if set(rep.read_errors) != bad:
            return f"read_errors={sorted(map(str, rep.read_errors))} expected={sorted(map(str, bad))}"
        if {r.path for r in rep.file_reports} != good:
            return "file_reports do not hold exactly the readable files"
        if rep.is_compliant != (not bad):
            return f"is_compliant={rep.is_compliant} with read errors {sorted(map(str, bad))}"
        return "ok"
    finally:
        rp.FileReport.generate = real


def _funnel(e0: int, e1: int, e2: int) -> bool:
    """
    pre: 0 <= e0 < len(FILE_EXCS) and 0 <= e1 < len(FILE_EXCS) and 0 <= e2 < len(FILE_EXCS)
    post: _
    """
    return _funnel_outcome(e0, e1, e2) == "ok"


def _funnel_reach(e0: int, e1: int, e2: int) -> bool:
    """
    pre: 0 <= e0 < len(FILE_EXCS) and 0 <= e1 < len(FILE_EXCS) and 0 <= e2 < len(FILE_EXCS)
    post: False
    """
    return _funnel_outcome(e0, e1, e2) == "ok"


def explain_funnel(e0, e1, e2):
    es = [e0, e1, e2][:NFILES]
    return {"faults": [type(FILE_EXCS[e]()).__name__ if e else None for e in es], "subset": SUBSET, "outcome": _funnel_outcome(e0, e1, e2)}


EXPLAIN = {"_ob": explain, "_proj": explain_proj, "_funnel": explain_funnel, "_tk": explain_tk}
