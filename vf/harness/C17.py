"""C17 harness (ordering and refusal): convert-dep5 writes REUSE.toml, then removes .reuse/dep5.

Real code: cli.convert_dep5.convert_dep5 (command body) with toml_from_dep5 on a real Copyright object.
Environment: the project root is a path model that records operations; write_text may fail."""
import click
from debian.copyright import Copyright

from vf.harness.common import PARAMS

import reuse.cli.convert_dep5 as cc
from reuse.global_licensing import ReuseDep5

DEP5 = """Format: https://www.debian.org/doc/packaging-manuals/copyright-format/1.0/

Files: *
Copyright: 2020 Jane Doe
License: MIT
"""


class Node:
    def __init__(self, fs, path):
        self.fs, self.path = fs, path

    def __truediv__(self, other):
        return Node(self.fs, self.path + "/" + str(other))

    def exists(self):
        return self.path in self.fs.files

    def write_text(self, text, *a, **k):
        self.fs.log.append(("write", self.path))
        if self.fs.fail_write == "before":
            raise OSError(28, "No space left on device")
        self.fs.files[self.path] = text if self.fs.fail_write != "partial" else text[:10]
        if self.fs.fail_write == "partial":
            raise OSError(28, "No space left on device")
        return len(text)

    def unlink(self, missing_ok=False):
        self.fs.log.append(("unlink", self.path))
        if self.path not in self.fs.files:
            raise FileNotFoundError(2, "no such file", self.path)
        del self.fs.files[self.path]


class FSModel:
    def __init__(self, has_dep5, fail_write):
        self.files = {"/proj/.reuse/dep5": DEP5} if has_dep5 else {}
        self.log = []
        self.fail_write = fail_write


class _Project:
    def __init__(self, fs, has_dep5):
        self.root = Node(fs, "/proj")
        self.global_licensing = ReuseDep5("/proj/.reuse/dep5", Copyright(DEP5)) if has_dep5 else None


class _Obj:
    def __init__(self, project):
        self.project = project


def story(has_dep5, fail):
    fail_write = ["no", "before", "partial"][fail]
    fs = FSModel(True if has_dep5 else False, fail_write)
    obj = _Obj(_Project(fs, True if has_dep5 else False))
    cb = cc.convert_dep5.callback
    cb = getattr(cb, "__wrapped__", cb)
    outcome = "returned"
    try:
        cb(obj)
    except click.UsageError:
        outcome = "usage"
    except OSError:
        outcome = "oserror"
    dep5_there = "/proj/.reuse/dep5" in fs.files
    toml_there = "/proj/REUSE.toml" in fs.files
    if not has_dep5:
        ok = outcome == "usage" and not fs.log
        return ok, outcome, fs.log, dep5_there, toml_there
    if fail_write != "no":
        # the dep5 file is removed only after REUSE.toml has been written
        ok = dep5_there and ("unlink", "/proj/.reuse/dep5") not in fs.log
        return ok, outcome, fs.log, dep5_there, toml_there
    ok = outcome == "returned" and toml_there and not dep5_there and fs.log == [("write", "/proj/REUSE.toml"), ("unlink", "/proj/.reuse/dep5")]
    return ok, outcome, fs.log, dep5_there, toml_there


def _order(has_dep5: bool, fail: int) -> bool:
    """
    pre: 0 <= fail < 3
    post: _
    """
    return story(has_dep5, fail)[0]


def _order_reach(has_dep5: bool, fail: int) -> bool:
    """
    pre: 0 <= fail < 3
    post: False
    """
    return story(has_dep5, fail)[0]


def explain_order(has_dep5, fail):
    ok, outcome, log, d, t = story(has_dep5, fail)
    return {"has_dep5": bool(has_dep5), "write": ["succeeds", "fails before writing", "fails after a partial write"][fail], "outcome": outcome, "operations": log, "dep5_still_there": d, "reuse_toml_there": t}


EXPLAIN = {"_order": explain_order}
