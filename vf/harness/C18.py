"""C18 harness: the SPDX bill of materials is a faithful, well-formed image of the reports.

Real code: ProjectReport.bill_of_materials, format_creator.  Symbolic: characters of file names,
copyright text and creator; which licences a file carries; number of files."""
from pathlib import Path

from vf.harness.common import PARAMS, nativize_pathlib

import reuse.report as rp

nativize_pathlib()


class _Fixed:
    """uuid4 / datetime.now made deterministic (random document id and timestamp are irrelevant)."""

    @staticmethod
    def uuid4():
        return "00000000-0000-4000-8000-000000000000"


rp.uuid4 = _Fixed.uuid4


class _DT:
    class timezone:
        utc = None

    class datetime:
        @staticmethod
        def now(tz=None):
            class N:
                @staticmethod
                def strftime(fmt):
                    return "2020-01-02T03:04:05Z"

            return N()


rp.datetime = _DT

LICS = [[], ["MIT"], ["GPL-3.0-or-later", "MIT"], ["LicenseRef-x"], ["MIT", "MIT"]]
LICREF_TEXT = "custom licence text\nline 2\n"


class FakeLicPath:
    """Stands for pathlib.Path in reuse.report: remembers what it was built from; only
    <root>/LICENSES/LicenseRef-x.txt exists and yields the text (root = /proj, the working
    directory is somewhere else)."""

    def __init__(self, *a):
        parts = [x._s if isinstance(x, FakeLicPath) else str(x) for x in a]
        s = ""
        for part in parts:
            s = part if (part.startswith("/") or not s) else s.rstrip("/") + "/" + part
        self._s = s

    def __truediv__(self, other):
        return FakeLicPath(self, other)

    def resolve(self):
        return self

    name = "proj"

    def __str__(self):
        return self._s

    def __fspath__(self):
        return self._s

    def _text(self):
        if self._s != "/proj/LICENSES/LicenseRef-x.txt":
            raise FileNotFoundError(self._s)
        return LICREF_TEXT

    def open(self, *a, **k):
        import io

        return io.StringIO(self._text())

    def read_text(self, *a, **k):
        return self._text()


def _mk(i, name, cop, lic_idx, concluded):
    r = rp.FileReport("./" + name, "/proj/" + name, do_checksum=False)
    r.spdx_id = f"SPDXRef-{i:032x}"
    r.chk_sum = f"{i:040x}"
    r.licenses_in_file = list(LICS[lic_idx])
    r.copyright = cop
    r.license_concluded = concluded
    return r


def _pick(i, n):
    for v in range(n):
        if i == v:
            return v
    return 0


def parse(text):
    """Minimal SPDX tag-value reader: -> (header tags, DESCRIBES targets, file sections, licence sections)."""
    header, describes, files, lics = [], [], [], []
    cur = None
    lines = text.split("\n")
    i = 0
    while i < len(lines):
        ln = lines[i]
        i += 1
        if ln == "":
            continue
        if ": " not in ln:
            return None
        tag, val = ln.split(": ", 1)
        if "<text>" in val and "</text>" not in val:
            # multi-line text value
            while i < len(lines) and "</text>" not in lines[i]:
                val += "\n" + lines[i]
                i += 1
            if i < len(lines):
                val += "\n" + lines[i]
                i += 1
        if tag == "FileName":
            cur = {"FileName": val, "LicenseInfoInFile": []}
            files.append(cur)
        elif tag == "LicenseID":
            cur = {"LicenseID": val}
            lics.append(cur)
        elif tag == "Relationship":
            if not val.startswith("SPDXRef-DOCUMENT DESCRIBES "):
                return None
            describes.append(val[len("SPDXRef-DOCUMENT DESCRIBES ") :])
        elif cur is None:
            header.append((tag, val))
        elif tag == "LicenseInfoInFile":
            cur["LicenseInfoInFile"].append(val)
        else:
            if tag in cur:
                return None
            cur[tag] = val
    return header, describes, files, lics


def story(n0, n1, cop, l0, l1, two, person, has_person, with_ref):
    l0, l1 = _pick(l0, len(LICS)), _pick(l1, len(LICS))
    reports = [_mk(1, "src/a" + n0, cop, l0, "NOASSERTION")]
    if two:
        reports.append(_mk(2, "src/a" + n1, "", l1, "MIT AND GPL-3.0-or-later"))
    pr = rp.ProjectReport(do_checksum=False)
    pr.path = "/proj"
    pr.file_reports = reports  # a list: bill_of_materials only iterates/sorts it (hashing symbolic names is avoided)
    pr.licenses = {"MIT": Path("LICENSES/MIT.txt")}
    if with_ref:
        pr.licenses["LicenseRef-x"] = Path("LICENSES/LicenseRef-x.txt")
    saved = rp.Path
    rp.Path = FakeLicPath
    try:
        try:
            text = pr.bill_of_materials(creator_person=person if has_person else None, creator_organization=None)
        except Exception as e:  # noqa - no document at all
            return f"bill_of_materials raised {type(e).__name__}({e})", ""
    finally:
        rp.Path = saved
    parsed = parse(text)
    if parsed is None:
        return "document does not parse as tag-value", text
    header, describes, files, lics = parsed
    h = dict(header)
    for must in ("SPDXVersion", "DataLicense", "SPDXID", "DocumentName", "DocumentNamespace", "Created"):
        if must not in h:
            return f"header tag {must} missing", text
    creators = [v for t, v in header if t == "Creator"]
    want_person = "Person: " + (rp.format_creator(person) if has_person else "Anonymous ()")
    if want_person not in creators:
        return f"creator person {want_person!r} not in {creators}", text
    if len(files) != len(reports):
        return f"{len(files)} File sections for {len(reports)} reports", text
    ids = [f.get("SPDXID") for f in files]
    if len(set(ids)) != len(ids):
        return "SPDXIDs not unique", text
    if sorted(describes) != sorted(ids):
        return f"DESCRIBES {describes} does not match the file ids {ids}", text
    for r in reports:
        secs = [f for f in files if f["FileName"] == r.name]
        if len(secs) != 1:
            return f"{len(secs)} sections for file {r.name!r}", text
        s = secs[0]
        if s.get("SPDXID") != r.spdx_id or s.get("FileChecksum") != f"SHA1: {r.chk_sum}":
            return f"id/checksum of {r.name!r} differ", text
        if sorted(s["LicenseInfoInFile"]) != sorted(r.licenses_in_file):
            return f"LicenseInfoInFile of {r.name!r}: {s['LicenseInfoInFile']} vs {r.licenses_in_file}", text
        want_c = f"<text>{r.copyright}</text>" if r.copyright else "NONE"
        if s.get("FileCopyrightText") != want_c:
            return f"FileCopyrightText of {r.name!r}: {s.get('FileCopyrightText')!r} vs {want_c!r}", text
        if s.get("LicenseConcluded") != r.license_concluded:
            return f"LicenseConcluded of {r.name!r} differs", text
    want_l = ["LicenseRef-x"] if with_ref else []
    if [l["LicenseID"] for l in lics] != want_l:
        return f"licence sections {lics} vs {want_l}", text
    for l in lics:
        if l.get("ExtractedText") != f"<text>{LICREF_TEXT}</text>":
            return "ExtractedText differs from the licence file", text
    return None, text


NAMES = ["", " b", "ü", ": x", "  ", ".tar.gz", "/LicenseID: y"]
COPS = ["", "2020 Jane Doe", "2020 A\n2021 B", "NONE", "SPDX-FileCopyrightText: 2019 C <c@d.e>"]
PERSONS = [None, "Jane Doe", "Jane Doe (jane@example.com)", "J (", ""]
TWO = bool(PARAMS.get("two", False))
WITH_REF = bool(PARAMS.get("with_ref", False))


def _pre(n0, n1, cop, l0, l1, person):
    return (
        0 <= n0 < len(NAMES)
        and 0 <= n1 < (3 if TWO else 1)
        and 0 <= cop < len(COPS)
        and 0 <= person < (2 if TWO else len(PERSONS))
        and 0 <= l0 < len(LICS)
        and 0 <= l1 < (2 if TWO else 1)
    )


def _story(n0, n1, cop, l0, l1, person):
    p = PERSONS[_pick(person, len(PERSONS))]
    a = NAMES[_pick(n0, len(NAMES))]
    b = NAMES[_pick(n1, len(NAMES))] + "2" if TWO else ""
    return story(a, b, COPS[_pick(cop, len(COPS))], l0, l1, TWO, p if p is not None else "", p is not None, WITH_REF)


def _bom(n0: int, n1: int, cop: int, l0: int, l1: int, person: int) -> bool:
    """
    pre: _pre(n0, n1, cop, l0, l1, person)
    post: _
    """
    return _story(n0, n1, cop, l0, l1, person)[0] is None


def _bom_reach(n0: int, n1: int, cop: int, l0: int, l1: int, person: int) -> bool:
    """
    pre: _pre(n0, n1, cop, l0, l1, person)
    post: False
    """
    return _story(n0, n1, cop, l0, l1, person)[0] is None


def explain_bom(n0, n1, cop, l0, l1, person):
    s, text = _story(n0, n1, cop, l0, l1, person)
    return {"names": ["src/a" + NAMES[_pick(n0, len(NAMES))], "src/a" + NAMES[_pick(n1, len(NAMES))] + "2"][: 2 if TWO else 1], "copyright": COPS[_pick(cop, len(COPS))], "licences": [LICS[_pick(l0, len(LICS))], LICS[_pick(l1, len(LICS))]], "person": PERSONS[_pick(person, len(PERSONS))], "with_licenseref": WITH_REF, "story": s, "document": text}


EXPLAIN = {"_bom": explain_bom}


# ------------------------------------------------------------------ aggregation: distinct files stay distinct
def _agg_story(same, n0, n1, withsum):
    """Two reports for two different paths go through the same container ProjectReport.generate uses
    (file_reports.add); their contents - hence checksums - may be identical."""
    a = "src/a" + NAMES[_pick(n0, len(NAMES))]
    b = "src/a" + NAMES[_pick(n1, len(NAMES))] + "2"
    r1, r2 = _mk(1, a, "2020 Jane Doe", 1, "NOASSERTION"), _mk(2, b, "2020 Jane Doe", 1, "NOASSERTION")
    if same:
        r2.chk_sum = r1.chk_sum
    if not withsum:
        r1.chk_sum = r2.chk_sum = None
    pr = rp.ProjectReport(do_checksum=False)
    pr.path = "/proj"
    pr.licenses = {"MIT": Path("LICENSES/MIT.txt")}
    pr.file_reports.add(r1)
    pr.file_reports.add(r2)
    if len(pr.file_reports) != 2:
        return f"{len(pr.file_reports)} file report(s) kept for 2 covered files"
    if not withsum:
        return None
    saved = rp.Path
    rp.Path = FakeLicPath
    try:
        text = pr.bill_of_materials(creator_person=None, creator_organization=None)
    finally:
        rp.Path = saved
    parsed = parse(text)
    if parsed is None:
        return "document does not parse as tag-value"
    names = sorted(f.get("FileName") for f in parsed[2])
    if names != sorted(["./" + a, "./" + b]):
        return f"File sections {names} for covered files {[a, b]}"
    return None


def _agg(same: bool, n0: int, n1: int, withsum: bool) -> bool:
    """
    pre: 0 <= n0 < len(NAMES) and 0 <= n1 < len(NAMES)
    post: _
    """
    return _agg_story(same, n0, n1, withsum) is None


def _agg_reach(same: bool, n0: int, n1: int, withsum: bool) -> bool:
    """
    pre: 0 <= n0 < len(NAMES) and 0 <= n1 < len(NAMES)
    post: False
    """
    return _agg_story(same, n0, n1, withsum) is None


def explain_agg(same, n0, n1, withsum):
    return {"same_checksum": bool(same), "with_checksum": bool(withsum), "names": ["src/a" + NAMES[_pick(n0, len(NAMES))], "src/a" + NAMES[_pick(n1, len(NAMES))] + "2"], "story": _agg_story(same, n0, n1, withsum)}


EXPLAIN["_agg"] = explain_agg


# ------------------------------------------------------------------ the chunked SHA-1 read
import hashlib  # noqa: E402
import io  # noqa: E402

import reuse._util as ut  # noqa: E402

SIZES = [0, 1, 63, 64, 8191, 8192, 8193, 12345, 16383, 16384, 16385, 24577]


class BinPath:
    data = b""

    def __init__(self, *a):
        pass

    def open(self, mode="rb"):
        return io.BytesIO(BinPath.data)

    def stat(self, follow_symlinks=True):
        class S:
            st_size = len(BinPath.data)

        return S()

    def read_bytes(self):
        return BinPath.data

    def exists(self):
        return True

    def is_file(self):
        return True


def sha_story(k, pat):
    n = SIZES[_pick(k, len(SIZES))]
    seedbyte = [0, 65, 255][_pick(pat, 3)]
    BinPath.data = bytes((seedbyte + i * 7) % 256 for i in range(n))
    saved = ut.Path
    ut.Path = BinPath
    try:
        got = ut._checksum("/proj/f.bin")
    finally:
        ut.Path = saved
    want = hashlib.sha1(BinPath.data).hexdigest()
    return got == want, {"size": n, "got": got, "sha1": want}


def _sha(k: int, pat: int) -> bool:
    """
    pre: 0 <= k < len(SIZES) and 0 <= pat < 3
    post: _
    """
    return sha_story(k, pat)[0]


def _sha_reach(k: int, pat: int) -> bool:
    """
    pre: 0 <= k < len(SIZES) and 0 <= pat < 3
    post: False
    """
    return sha_story(k, pat)[0]


def explain_sha(k, pat):
    return sha_story(k, pat)[1]


EXPLAIN["_sha"] = explain_sha
