"""C20 harness: copyright notices are built and merged without losing holders or years.

Real code: copyright.make_copyright_line, merge_copyright_lines, _parse_copyright_year and the real
_COPYRIGHT_PATTERNS (interpreted by PYRE so that CrossHair can execute them on symbolic strings)."""
from vf.harness.common import PARAMS
from vf.pyre import PyRe

import reuse.copyright as cr
import reuse.extract as ex

REAL_PATTERNS = list(ex._COPYRIGHT_PATTERNS)
PY_PATTERNS = [PyRe(p) for p in REAL_PATTERNS]
cr._COPYRIGHT_PATTERNS = PY_PATTERNS  # the name copyright.py imported
ex._COPYRIGHT_PATTERNS = PY_PATTERNS


class _Re:
    """copyright._parse_copyright_year calls re.match(pattern_text, year): route through PYRE."""

    _cache = {}

    @classmethod
    def match(cls, pattern, string, flags=0):
        key = (pattern, flags)
        if key not in cls._cache:
            import re as _re

            cls._cache[key] = PyRe(_re.compile(pattern, flags))
        return cls._cache[key].match(string)


cr.re = _Re

PREFIX = PARAMS.get("prefix", "spdx")
CARRIER = PARAMS.get("carrier", "Jane Doe")
HOLE = PARAMS.get("hole", "end")  # start | mid | end
NFREE = int(PARAMS.get("nfree", 1))
YEAR = PARAMS.get("year", "none")  # none | single | range | spaced
CARVE = set(PARAMS.get("carve", []))

# characters that can end a line terminator the reader strips (last literal of each group of _END_PATTERN)
import re as _re_mod
from re import _constants as _sc
from re import _parser as _sp


def _last_chars():
    out = set()
    items = list(_sp.parse(ex._END_PATTERN))
    for op, av in items:
        if op in (_sc.MAX_REPEAT, _sc.MIN_REPEAT):
            sub = list(av[2])
            while sub and sub[-1][0] is _sc.SUBPATTERN:
                sub = list(sub[-1][1][3])
            if sub:
                lop, lav = sub[-1]
                if lop is _sc.LITERAL:
                    out.add(chr(lav))
                elif lop in (_sc.MAX_REPEAT, _sc.MIN_REPEAT):
                    # e.g. `/*>` : the repeated literal or the one before it
                    for o2, a2 in reversed(sub):
                        if o2 is _sc.LITERAL:
                            out.add(chr(a2))
                            break
                        if o2 in (_sc.MAX_REPEAT, _sc.MIN_REPEAT):
                            for o3, a3 in a2[2]:
                                if o3 is _sc.LITERAL:
                                    out.add(chr(a3))
    return out


LAST_CHARS = sorted(_last_chars())


def holder_of(a, b):
    free = (a + b) if NFREE == 2 else a
    if HOLE == "start":
        return free + CARRIER
    if HOLE == "mid":
        k = len(CARRIER) // 2
        return CARRIER[:k] + free + CARRIER[k:]
    return CARRIER + free


YEARS = {"none": None, "single": "2020", "range": "1999-2003", "spaced": "1999 - 2003"}  # the year forms of the statement


def year_of(d):
    # concrete year forms: symbolic digits made every condition exceed its budget (measured);
    # the year grammar is exercised separately through _parse_copyright_year
    return YEARS[YEAR]


def _digits(d):
    for ch in d:
        if not ("0" <= ch <= "9"):
            return False
    return True


def _is_space(ch):
    # str.isspace() written as comparisons (single fork through | and &)
    c = ord(ch)
    return bool((c == 32) | ((c >= 9) & (c <= 13)) | ((c >= 28) & (c <= 31)) | (c == 133) | (c == 160) | (c == 5760) | ((c >= 8192) & (c <= 8202)) | (c == 8232) | (c == 8233) | (c == 8239) | (c == 8287) | (c == 12288))


def _pre(c0, c1):
    # free characters are given as code points (chr() of a symbolic int is a string of *concrete*
    # length; a symbolic `str` argument has a symbolic length that costs solver queries on every index)
    lo, hi = PARAMS.get("c0_range", [0, 0x110000])
    if not (lo <= c0 < hi) or (0xD800 <= c0 <= 0xDFFF):
        return False
    if NFREE == 2:
        if not (0 <= c1 < 0x110000) or (0xD800 <= c1 <= 0xDFFF):
            return False
    elif c1 != 0:
        return False
    if c0 == 10 or c1 == 10:
        return False
    # holder grammar: stripped (no leading / trailing white space)
    if HOLE == "start" and _is_space(chr(c0)):
        return False
    if HOLE == "end" and _is_space(chr(c1 if NFREE == 2 else c0)):
        return False
    return True


def _chars(c0, c1):
    return chr(c0), (chr(c1) if NFREE == 2 else "")


def first_match(line):
    for p in PY_PATTERNS:
        m = p.search(line)
        if m is not None:
            return m
    return None


def story(c0, c1):
    a, b = _chars(c0, c1)
    holder = holder_of(a, b)
    year = year_of("")
    prefix_text = cr._COPYRIGHT_PREFIXES[PREFIX]
    already = first_match(holder) is not None
    line = cr.make_copyright_line(holder, year, PREFIX)
    if already:
        # "a statement that already is a notice is kept verbatim"
        return (None if line == holder else "a notice was not kept verbatim"), holder, year, line
    m = first_match(line)
    if m is None:
        return "built line is not recognised as a notice", holder, year, line
    g = m.groupdict()
    if g["prefix"] != prefix_text:
        return "prefix read back differently", holder, year, line
    if g["year"] != year:
        return "year read back differently", holder, year, line
    if g["statement"] != holder:
        return "holder read back differently", holder, year, line
    if g["copyright"].strip() != line:
        return "notice read back differently", holder, year, line
    return None, holder, year, line


def _last_in(holder, chars):
    c = ord(holder[-1])
    r = False
    for ch in chars:
        r = r | (c == ord(ch))
    return True if r else False


def known_key(holder, year, why):
    if why and ("holder read back" in why or "notice read back" in why) and _last_in(holder, LAST_CHARS):
        return "holder-ends-like-terminator"
    return None


def _body(c0, c1):
    why, holder, year, line = story(c0, c1)
    if why is None:
        return True
    return known_key(holder, year, why) in CARVE


def _rt(c0: int, c1: int) -> bool:
    """
    pre: _pre(c0, c1)
    post: _
    """
    return _body(c0, c1)


def _rt_reach(c0: int, c1: int) -> bool:
    """
    pre: _pre(c0, c1)
    post: False
    """
    return _body(c0, c1)


def explain_rt(c0, c1):
    why, holder, year, line = story(c0, c1)
    m = first_match(line)
    return {"holder": holder, "year": year, "prefix": PREFIX, "line": line, "why": why, "read_back": (m.groupdict() if m else None), "known_key": known_key(holder, year, why)}


EXPLAIN = {"_rt": explain_rt}


# ------------------------------------------------------------------ merging
HOLDERS = ["Jane Doe <jane@example.org>", "Ünïcode GmbH & Co. KG", "Acme, Inc.", "J"]
M_PREFIXES = PARAMS.get("m_prefixes", ["spdx", "string-c", "symbol", "spdx-string-symbol"])
M_YEARS = [None, "2019", "2021", "2015-2017", "2016 - 2023"]
M_N = int(PARAMS.get("m_n", 2))
M_SAME = bool(PARAMS.get("m_same_holder", False))
M_ABA = bool(PARAMS.get("m_aba", False))  # three notices: holder A, another holder, holder A again


def _pick(i, n):
    for v in range(n):
        if i == v:
            return v
    return 0


def _years_of(y):
    if y is None:
        return []
    if len(y) == 4:
        return [y]
    return [y[:4], y[-4:]]


def merge_story(h0, p0, y0, h1, p1, y1, h2, p2, y2):
    sel = [(h0, p0, y0), (h1, p1, y1), (h2, p2, y2)][:M_N]
    notices = []
    for h, p, y in sel:
        if M_SAME:
            holder = HOLDERS[0]
        elif M_ABA:
            holder = HOLDERS[0] if len(notices) != 1 else HOLDERS[1 + _pick(h, len(HOLDERS) - 1)]
        elif len(notices) == 0 and "fix_h0" in PARAMS:
            holder = HOLDERS[PARAMS["fix_h0"]]
        else:
            holder = HOLDERS[_pick(h, len(HOLDERS))]
        prefix = M_PREFIXES[_pick(p, len(M_PREFIXES))]
        year = M_YEARS[_pick(y, len(M_YEARS))]
        notices.append((holder, prefix, year))
    lines = []
    for holder, prefix, year in notices:
        ln = cr.make_copyright_line(holder, year, prefix)
        if ln not in lines:
            lines.append(ln)
    out = cr.merge_copyright_lines(lines)  # a list: the function only iterates its argument
    # read the result back
    got = {}
    for ln in out:
        m = first_match(ln)
        if m is None:
            return "a merged line is not a notice", notices, sorted(out)
        g = m.groupdict()
        st = str(g["statement"])
        if st in got:
            return "two lines for one holder", notices, sorted(out)
        got[st] = cr._parse_copyright_year(g["year"])
    want = {}
    for holder, prefix, year in notices:
        want.setdefault(holder, []).extend(_years_of(year))
    if sorted(got) != sorted(want):
        return "holder set changed", notices, sorted(out)
    for h, ys in want.items():
        g = got[h]
        if not ys:
            if g:
                return "a year appeared from nowhere", notices, sorted(out)
            continue
        if not g:
            return "years lost", notices, sorted(out)
        if min(g) != min(ys) or max(g) != max(ys):
            return "year range does not span the stated years", notices, sorted(out)
    return None, notices, sorted(out)


def _mpre(h0, p0, y0, h1, p1, y1, h2, p2, y2):
    nh, npf, ny = len(HOLDERS), len(M_PREFIXES), len(M_YEARS)
    ok = 0 <= p0 < npf and 0 <= y0 < ny and 0 <= p1 < npf and 0 <= y1 < ny
    if M_ABA:
        return ok and h0 == 0 and h2 == 0 and 0 <= h1 < nh - 1 and 0 <= p2 < npf and 0 <= y2 < ny
    ok = ok and ((h0 == 0 and h1 == 0 and h2 == 0) if M_SAME else ((h0 == 0 if "fix_h0" in PARAMS else 0 <= h0 < nh) and 0 <= h1 < nh))
    if M_N == 3:
        ok = ok and 0 <= p2 < npf and 0 <= y2 < ny and (M_SAME or 0 <= h2 < nh)
    else:
        ok = ok and h2 == 0 and p2 == 0 and y2 == 0
    return ok


def _merge(h0: int, p0: int, y0: int, h1: int, p1: int, y1: int, h2: int, p2: int, y2: int) -> bool:
    """
    pre: _mpre(h0, p0, y0, h1, p1, y1, h2, p2, y2)
    post: _
    """
    return merge_story(h0, p0, y0, h1, p1, y1, h2, p2, y2)[0] is None


def _merge_reach(h0: int, p0: int, y0: int, h1: int, p1: int, y1: int, h2: int, p2: int, y2: int) -> bool:
    """
    pre: _mpre(h0, p0, y0, h1, p1, y1, h2, p2, y2)
    post: False
    """
    return merge_story(h0, p0, y0, h1, p1, y1, h2, p2, y2)[0] is None


def explain_merge(*a):
    why, notices, out = merge_story(*a)
    return {"notices": notices, "merged": out, "why": why}


EXPLAIN["_merge"] = explain_merge


# ------------------------------------------------------------------ --year options -> one year / range
import reuse.cli.annotate as _ca  # noqa: E402

YEAR_POOL = ["2016", "2018", "2020", "1999"]


def year_story(n, a, b, c, exclude):
    ys = [YEAR_POOL[_pick(x, 4)] for x in (a, b, c)][: _pick(n, 4)]
    got = _ca.get_year(ys, True if exclude else False)
    if exclude:
        return got is None, ys, got
    if not ys:
        return (got is not None and len(got) == 4), ys, got  # today's year
    if len(ys) == 1:
        return got == ys[0], ys, got
    want = cr._parse_copyright_year(got)
    return (len(want) == 2 and want[0] == min(ys) and want[1] == max(ys)) or (min(ys) == max(ys) and want and want[0] == min(ys) and want[-1] == max(ys)), ys, got


def _year(n: int, a: int, b: int, c: int, exclude: bool) -> bool:
    """
    pre: 0 <= n < 4 and 0 <= a < 4 and 0 <= b < 4 and 0 <= c < 4
    post: _
    """
    return year_story(n, a, b, c, exclude)[0]


def _year_reach(n: int, a: int, b: int, c: int, exclude: bool) -> bool:
    """
    pre: 0 <= n < 4 and 0 <= a < 4 and 0 <= b < 4 and 0 <= c < 4
    post: False
    """
    return year_story(n, a, b, c, exclude)[0]


def explain_year(*a):
    ok, ys, got = year_story(*a)
    return {"years": ys, "exclude": bool(a[4]), "got": got}


EXPLAIN["_year"] = explain_year
