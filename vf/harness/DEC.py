"""C16 harness: whatever bytes a covered file holds, the text the tool reads from it can be written out again.

Real code: extract.decoded_text_from_binary (the only place where the bytes of a covered file become text)."""
import io

from vf.harness.common import PARAMS

import reuse.extract as ex

N = int(PARAMS.get("nbytes", 3))


class _File:
    """A binary file object whose read() hands the (symbolic) bytes on unchanged."""

    def __init__(self, data):
        self.data = data

    def read(self, size=-1):
        return self.data


def story_b(data):
    try:
        text = ex.decoded_text_from_binary(_File(data), size=4096)
    except Exception as e:  # noqa
        return "decoding raised " + type(e).__name__, None
    try:
        text.encode("utf-8")
    except UnicodeEncodeError:
        return "the decoded text cannot be encoded as UTF-8 again (lone surrogate): writing it to a report or a bill of materials raises UnicodeEncodeError", text
    return None, text


def _decb(data: bytes) -> bool:
    """
    pre: 1 <= len(data) <= N
    post: _
    """
    return story_b(data)[0] is None


def _decb_reach(data: bytes) -> bool:
    """
    pre: 1 <= len(data) <= N
    post: False
    """
    return story_b(data)[0] is None


def explain_decb(data):
    why, text = story_b(data)
    return {"bytes": list(data), "decoded": ascii(text), "why": why}


EXPLAIN = {"_decb": explain_decb}
