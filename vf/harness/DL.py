"""C19 harness: download never overwrites and supplies exactly the missing licences.

Real code: cli.download.download (command body), download.put_license_in_file,
_path_to_license_file, _util.find_licenses_directory, _strip_plus_from_identifier.
Environment: dict-backed file system (Path, open, touch, mkdir, shutil.copyfile); the network is a
stub returning text or raising URLError per identifier."""
import io
from pathlib import PosixPath
from urllib.error import URLError

import click

from vf.harness.common import PARAMS, nativize_pathlib

import reuse._util as ut
import reuse.cli.download as cd
import reuse.download as dl
from reuse.vcs import VCSStrategyNone

nativize_pathlib()

IDS = ["MIT", "MIT+", "GPL-3.0", "Foo", "LicenseRef-x", "LicenseRef-x+"]
NREQ = int(PARAMS.get("nreq", 2))
LAYOUT = PARAMS.get("layout", "root")  # root | in-licenses | vcs-root-named-licenses
# where the statement says the text goes: LICENSES/ under the project root
LICDIR = "/proj/LICENSES/LICENSES" if LAYOUT == "vcs-root-named-licenses" else "/proj/LICENSES"
OUTPUT = bool(PARAMS.get("output", False))
SOURCE = PARAMS.get("source", "none")  # none | file | dir | dir-missing


class FS:
    files = {}
    dirs = set()
    opened_for_write = []


class FakePath(PosixPath):
    def exists(self):
        return str(self) in FS.files or str(self) in FS.dirs

    def is_dir(self):
        return str(self) in FS.dirs

    def is_file(self):
        return str(self) in FS.files

    def mkdir(self, mode=0o777, parents=False, exist_ok=False):
        if str(self) in FS.dirs:
            if not exist_ok:
                raise FileExistsError(17, "exists", str(self))
            return
        if str(self.parent) not in FS.dirs and not parents:
            raise FileNotFoundError(2, "no parent", str(self))
        FS.dirs.add(str(self))

    def touch(self, mode=0o666, exist_ok=True):
        if str(self) in FS.files and not exist_ok:
            raise FileExistsError(17, "File exists", str(self))
        FS.files.setdefault(str(self), "")

    def resolve(self, strict=False):
        return self

    def open(self, mode="r", buffering=-1, encoding=None, errors=None, newline=None):
        p = str(self)
        if "x" in mode and p in FS.files:
            raise FileExistsError(17, "File exists", p)
        if "w" in mode or "x" in mode:
            FS.opened_for_write.append(p)
            FS.files[p] = ""  # as on a real file system: the file exists (empty) as soon as it is opened for writing

            class W(io.StringIO):
                def close(self2):
                    FS.files[p] = self2.getvalue()
                    super().close()

                def __exit__(self2, *a):
                    self2.close()
                    return False

            return W()
        if p not in FS.files:
            raise FileNotFoundError(2, "no such file", p)
        return io.StringIO(FS.files[p])

    @classmethod
    def cwd(cls):
        return cls(FS.cwd)


def copyfile(src, dst):
    FS.files[str(dst)] = FS.files[str(src)]


class _SomeVCS:
    """Stands for a detected version control system (anything that is not VCSStrategyNone)."""

    EXE = "git"

    def __init__(self, root):
        self.root = root

    def is_ignored(self, path):
        return False

    def is_submodule(self, path):
        return False


class _Project:
    def __init__(self, root):
        self.root = FakePath(root)
        self.vcs_strategy = _SomeVCS(root) if LAYOUT == "vcs-root-named-licenses" else VCSStrategyNone(root)


class _Obj:
    def __init__(self, root):
        self.project = _Project(root)


def _pick_from(i, allowed):
    for v in allowed:
        if i == v:
            return v
    return allowed[0]


def _mem(x, allowed):
    for v in allowed:
        if x == v:
            return True
    return False


def _b(x):
    return True if x else False


def run_download(i0, n0, i1, n1, pre0, pre1, licdir):
    req = []
    for k, (i, n) in enumerate(((i0, n0), (i1, n1))[:NREQ]):
        if k == 0 and "first" in PARAMS:
            req.append((IDS[PARAMS["first"]], _b(n)))
        else:
            req.append((IDS[_pick_from(i, list(range(len(IDS))))], _b(n)))
    root = "/proj/LICENSES" if LAYOUT in ("in-licenses", "vcs-root-named-licenses") else "/proj"
    licenses_dir = LICDIR
    FS.files, FS.dirs, FS.opened_for_write = {}, {"/", "/proj", "/src"}, []
    FS.cwd = root
    if LAYOUT == "vcs-root-named-licenses":
        FS.dirs.add("/proj/LICENSES")
    if _b(licdir) or LAYOUT == "in-licenses":
        FS.dirs.add(licenses_dir)
    pre = [_b(pre0), _b(pre1)]
    for k, (ident, _net) in enumerate(req):
        base = ident[:-1] if ident.endswith("+") else ident
        if pre[k] and licenses_dir in FS.dirs:
            FS.files[f"{licenses_dir}/{base}.txt"] = f"ORIGINAL {base}"
    source = None
    if SOURCE == "file":
        FS.files["/src/custom.txt"] = "CUSTOM TEXT"
        source = FakePath("/src/custom.txt")
    elif SOURCE == "dir":
        FS.dirs.add("/src/lic")
        FS.files["/src/lic/LicenseRef-x.txt"] = "CUSTOM TEXT"
        source = FakePath("/src/lic")
    elif SOURCE == "dir-missing":
        FS.dirs.add("/src/lic")
        source = FakePath("/src/lic")
    output = FakePath("/proj/out/license.txt") if OUTPUT else None
    if OUTPUT:
        FS.dirs.add("/proj/out")
    before_files, before_dirs = dict(FS.files), set(FS.dirs)
    net = {}
    for ident, ok in req:
        base = ident[:-1] if ident.endswith("+") else ident
        net[base] = ok and net.get(base, True)
    calls = []

    def fake_download(identifier):
        calls.append(identifier)
        if not net.get(identifier, False):
            raise URLError("stubbed network failure")
        return f"TEXT OF {identifier}\n"

    saved = (dl.Path, ut.Path, dl.download_license, dl.shutil.copyfile, cd.click.echo)
    dl.Path = FakePath
    ut.Path = FakePath
    dl.download_license = fake_download
    dl.shutil.copyfile = copyfile
    cd.click.echo = lambda *a, **k: None
    code = "returned"
    try:
        try:
            cb = cd.download.callback
            cb = getattr(cb, "__wrapped__", cb)
            cb(_Obj(root), [r[0] for r in req], False, output, source)
        except SystemExit as e:
            code = e.code
        except click.UsageError:
            code = "usage"
    finally:
        dl.Path, ut.Path, dl.download_license, dl.shutil.copyfile, cd.click.echo = saved
    return req, net, before_files, before_dirs, dict(FS.files), set(FS.dirs), code, calls, (str(output) if output else None)


def story(*a):
    req, net, bf, bd, af, ad, code, calls, output = run_download(*a)
    bases = []
    for ident, _ok in req:
        b = ident[:-1] if ident.endswith("+") else ident
        if b not in bases:
            bases.append(b)
    if output and len(req) > 1:
        if code != "usage":
            return "--output with more than one licence was not refused", req, bf, af, code
        if af != bf:
            return "a usage error after files had been touched", req, bf, af, code
        return None, req, bf, af, code
    # 1. nothing that existed is replaced or altered
    for p, content in bf.items():
        if af.get(p) != content:
            return f"existing file {p} was replaced or altered", req, bf, af, code
    failures = 0
    allowed_new = set()
    for b in bases:
        dest = output or f"{LICDIR}/{b}.txt"
        allowed_new.add(dest)
        existed = dest in bf
        is_ref = b.startswith("LicenseRef-")
        if existed:
            failures += 1
            continue
        if is_ref:
            if SOURCE == "none":
                want = ""
            elif SOURCE == "dir-missing":
                want = None
            else:
                want = "CUSTOM TEXT"
            if b in calls:
                return f"network used for {b}", req, bf, af, code
        else:
            want = f"TEXT OF {b}\n" if net.get(b) else None
        if want is None:
            failures += 1
            if dest in af:
                return f"a file was left behind for the failed {b}: {dest!r} = {af[dest]!r}", req, bf, af, code
        else:
            if af.get(dest) != want:
                return f"{dest} holds {af.get(dest)!r}, expected {want!r}", req, bf, af, code
    # 2. new files only where they are documented to go
    for p in af:
        if p not in bf and p not in allowed_new:
            return f"unexpected new file {p}", req, bf, af, code
    want_code = 1 if failures else 0
    if code != want_code:
        return f"exit status {code}, expected {want_code}", req, bf, af, code
    return None, req, bf, af, code


def _dl(i0: int, n0: bool, i1: int, n1: bool, pre0: bool, pre1: bool, licdir: bool) -> bool:
    """
    pre: (i0 == 0 if "first" in PARAMS else _mem(i0, [0, 1, 2, 3, 4, 5])) and (_mem(i1, [0, 1, 2, 3, 4, 5]) if NREQ > 1 else i1 == 0)
    post: _
    """
    return story(i0, n0, i1, n1, pre0, pre1, licdir)[0] is None


def _dl_reach(i0: int, n0: bool, i1: int, n1: bool, pre0: bool, pre1: bool, licdir: bool) -> bool:
    """
    pre: (i0 == 0 if "first" in PARAMS else _mem(i0, [0, 1, 2, 3, 4, 5])) and (_mem(i1, [0, 1, 2, 3, 4, 5]) if NREQ > 1 else i1 == 0)
    post: False
    """
    return story(i0, n0, i1, n1, pre0, pre1, licdir)[0] is None


def explain_dl(*a):
    why, req, bf, af, code = story(*a)
    return {"layout": LAYOUT, "output": OUTPUT, "source": SOURCE, "requested": req, "before": bf, "after": af, "exit": code, "why": why}


# ------------------------------------------------------------------ download_license: the HTTP status as a variable
from urllib.error import HTTPError  # noqa: E402

_REAL_DOWNLOAD = dl.download_license


def _status_outcome(code):
    """The real download_license against a urlopen that follows urllib's documented contract:
    a response object for 2xx, HTTPError (a URLError) for every other final status."""

    class Resp:
        status = code

        def __enter__(self):
            return self

        def __exit__(self, *a):
            return False

        def getcode(self):
            return code

        def read(self, *a):
            return b"BODY\n"

    def fake_urlopen(url, *a, **k):
        if 200 <= code < 300:
            return Resp()
        raise HTTPError("http://stub", 404, "refused", None, None)

    saved = dl.urllib.request.urlopen
    dl.urllib.request.urlopen = fake_urlopen
    try:
        try:
            text = _REAL_DOWNLOAD("MIT")
        except URLError:
            return "URLError"
        except Exception as e:  # noqa
            return f"escaped:{type(e).__name__}"
        return "text" if text == "BODY\n" else "other-text"
    finally:
        dl.urllib.request.urlopen = saved


def _status(code: int) -> bool:
    """
    pre: 100 <= code <= 599
    post: _
    """
    out = _status_outcome(code)
    return out == "text" if code == 200 else out == "URLError"


def _status_reach(code: int) -> bool:
    """
    pre: 100 <= code <= 599
    post: False
    """
    out = _status_outcome(code)
    return out == "text" if code == 200 else out == "URLError"


def explain_status(code):
    return {"status": code, "outcome": _status_outcome(code), "why": f"HTTP status {code}: download_license -> {_status_outcome(code)}"}


EXPLAIN = {"_dl": explain_dl, "_status": explain_status}
