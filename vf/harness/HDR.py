"""Header-placement harness shared by C08 (nothing but the header changes), C09 (information only
accumulates) and C10 (re-running changes nothing).

Real code: header.find_and_replace_header, add_new_header, create_header, _create_new_header,
_find_first_spdx_comment, _indices_of_newlines, _extract_shebang, place_header,
CommentStyle.comment_at_first_character / create_comment, extract.extract_reuse_info /
contains_reuse_info, copyright.merge_copyright_lines, _annotate.add_header_to_file (over an in-memory
`open`), extract.detect_line_endings.  Patterns run through PYRE (native `re` on concrete subjects)."""
import io

from vf.harness.common import PARAMS, NativeLicensing
from vf.pyre import PyRe

import reuse._annotate as an
import reuse.comment as cm
import reuse.copyright as cr
import reuse.extract as ex
import reuse.header as hd
from reuse import ReuseInfo
from reuse.exceptions import CommentCreateError, MissingReuseInfoError

ex._LICENSE_IDENTIFIER_PATTERN = PyRe(ex._LICENSE_IDENTIFIER_PATTERN)
ex._CONTRIBUTOR_PATTERN = PyRe(ex._CONTRIBUTOR_PATTERN)
ex._SPDX_TAGS = {"spdx_expressions": ex._LICENSE_IDENTIFIER_PATTERN, "contributor_lines": ex._CONTRIBUTOR_PATTERN}
ex._COPYRIGHT_PATTERNS = [PyRe(p) for p in ex._COPYRIGHT_PATTERNS]
cr._COPYRIGHT_PATTERNS = ex._COPYRIGHT_PATTERNS
hd._NEWLINE_PATTERN = PyRe(hd._NEWLINE_PATTERN)
ex._LICENSING = NativeLicensing(ex._LICENSING)
for _c in cm._all_style_classes():
    if _c.SINGLE_LINE_REGEXP is not None:
        _c.SINGLE_LINE_REGEXP = PyRe(_c.SINGLE_LINE_REGEXP)

STYLE = getattr(cm, PARAMS.get("style", "PythonCommentStyle"))
MULTI = bool(PARAMS.get("multi", False))
NLINES = int(PARAMS.get("nlines", 3))
REPLACE = bool(PARAMS.get("replace", True))
MERGE = bool(PARAMS.get("merge", False))
FIRST = PARAMS.get("first")  # fix the kind of the first line
KINDS = ["blank", "ws", "code", "indented", "own-comment", "foreign-comment", "old-header", "shebang", "absent", "late-shebang", "long-header", "quoting-code", "old-header-then-code"]
ALLOWED = PARAMS.get("kinds", list(range(10)))  # "long-header" (a header of more than 4 KiB) only on request

OLD_C = "SPDX-FileCopyrightText: 2019 Old Holder"
OLD_L = "0BSD"
NEW_C = "SPDX-FileCopyrightText: 2020 Jane Doe"
if PARAMS.get("request") == "two-years":
    # the line `annotate --year 2016 --year 2019` requests, built by the real get_year / make_copyright_line
    import reuse.cli.annotate as _ca

    NEW_C = cr.make_copyright_line("Jane Doe", _ca.get_year(["2016", "2019"], False), "spdx")
NEW_L = "GPL-3.0-or-later"
NEW_F = "Alice Example"
if PARAMS.get("request") == "case-twin":
    # the request differs from what the file already declares only in letter case
    NEW_C = "SPDX-FileCopyrightText: 2019 OLD HOLDER"
    NEW_F = "OLD CONTRIBUTOR"
if PARAMS.get("request") == "verbatim-notice":
    # a --copyright value that already is a notice, with text in front of its copyright word: kept verbatim
    NEW_C = "Portions Copyright 2019 Jane Doe"
if PARAMS.get("request") == "terminator-inside":
    # the holder contains the style's multi-line terminator in the middle of its text
    NEW_C = "SPDX-FileCopyrightText: 2020 Maintainers of src/" + (STYLE.MULTI_LINE.end or "*/") + "/vendor"


def _own_comment(text):
    try:
        return STYLE.create_comment(text, force_multi=MULTI)
    except CommentCreateError:
        return STYLE.create_comment(text, force_multi=not MULTI)


def _foreign_comment():
    if STYLE.SINGLE_LINE.startswith("#") or STYLE.MULTI_LINE.start.startswith("#"):
        return "// a foreign note"
    return "# a foreign note"


OLD_SAME_HOLDER = bool(PARAMS.get("old_same_holder", False))
OLD_KIND = PARAMS.get("old_kind", "full")  # full (copyright+licence+contributor) | contributor-only | trailing-ws
OLD_F = "Old Contributor"


def old_header(n_holders=1):
    if OLD_SAME_HOLDER:
        lines = {"SPDX-FileCopyrightText: 2016 - 2018 Jane Doe"}
    else:
        lines = {OLD_C} | {f"SPDX-FileCopyrightText: 20{i % 90 + 10} Holder Number {i} <holder{i}@example.org>" for i in range(n_holders - 1)}
    if OLD_KIND == "contributor-only":
        info = ReuseInfo(contributor_lines={OLD_F})
    elif OLD_KIND == "licence-only":
        info = ReuseInfo(spdx_expressions={ex._LICENSING.parse(OLD_L)})
    else:
        info = ReuseInfo(spdx_expressions={ex._LICENSING.parse(OLD_L)}, copyright_lines=lines, contributor_lines={OLD_F})
    out = hd._create_new_header(info, style=STYLE, force_multi=MULTI)
    if OLD_KIND == "trailing-ws":
        # the same header as a person (or an editor) may have left it: trailing blanks / tabs on some lines
        ls = out.split("\n")
        out = "\n".join(l + ("  " if i % 2 == 0 else "\t") if 0 < i < len(ls) - 1 or len(ls) <= 2 else l for i, l in enumerate(ls))
    return out


def line_of(kind, i):
    """-> list of physical lines for one logical body item."""
    if kind == "blank":
        return [""]
    if kind == "ws":
        return ["  "]
    if kind == "code":
        return [f"x{i} = {i}"]
    if kind == "indented":
        return [f"    y{i} = {i}"]
    if kind == "own-comment":
        return _own_comment(f"a note {i}").split("\n")
    if kind == "foreign-comment":
        return [_foreign_comment()]
    if kind == "old-header":
        return old_header().split("\n")
    if kind == "long-header":
        return old_header(80).split("\n")
    if kind == "quoting-code":
        # a code line that quotes the text of the (one-line) header verbatim, e.g. a banner constant
        h = old_header()
        return [f'banner{i} = "' + h + '"'] if "\n" not in h else [f"x{i} = {i}"]
    if kind == "old-header-then-code":
        # a multi-line header whose closing marker shares its line with code (as minifiers emit it)
        ls = old_header().split("\n")
        if len(ls) < 2 or not ls[-1].rstrip().endswith(STYLE.MULTI_LINE.end or "\0"):
            return [f"x{i} = {i}"]
        return ls[:-1] + [ls[-1] + f"!function(e){{}}(window{i});"]
    if kind == "shebang":
        sb = STYLE.SHEBANGS[0] if STYLE.SHEBANGS else "#!"
        return [sb + "/usr/bin/env thing"]
    if kind == "late-shebang":
        # a line further down that merely starts like one of the style's first-line declarations
        sb = STYLE.SHEBANGS[-1] if STYLE.SHEBANGS else "#!"
        return [sb + f" again {i}"]
    return []


def _pick_from(i, allowed):
    for v in allowed:
        if i == v:
            return v
    return allowed[0]


def _member(x, allowed):
    for v in allowed:
        if x == v:
            return True
    return False


def scenario(k0, k1, k2, k3, final_nl):
    kinds = []
    for i, k in enumerate((k0, k1, k2, k3)[:NLINES]):
        if i == 0 and FIRST is not None:
            kinds.append(KINDS[FIRST])
        else:
            kinds.append(KINDS[_pick_from(k, ALLOWED)])
    # a shebang is only a shebang on the first line; at most one old header
    items = []
    seen_header = False
    for i, k in enumerate(kinds):
        if k == "shebang" and i != 0:
            k = "code"
        if k == "late-shebang" and i == 0:
            k = "code"
        if k in ("old-header", "long-header"):
            if seen_header:
                k = "code"
            seen_header = True
        items.append(k)
    lines = []
    spans = []
    for i, k in enumerate(items):
        ls = line_of(k, i)
        spans.append((k, len(lines), len(lines) + len(ls)))
        lines.extend(ls)
    text = "\n".join(lines)
    if lines and (True if final_nl else False):
        text += "\n"
    return items, lines, spans, text


def _pre(k0, k1, k2, k3):
    ok = True
    for i, k in enumerate((k0, k1, k2, k3)):
        if i < NLINES and not (i == 0 and FIRST is not None):
            ok = ok and _member(k, ALLOWED)
        else:
            ok = ok and k == 0
    return ok


REQUEST = PARAMS.get("request", "full")  # full | contributor-only | licence-only | copyright-only


def new_info():
    if REQUEST == "contributor-only":
        return ReuseInfo(contributor_lines={NEW_F})
    if REQUEST == "licence-only":
        return ReuseInfo(spdx_expressions={ex._LICENSING.parse(NEW_L)})
    if REQUEST in ("copyright-only", "two-years", "verbatim-notice"):
        return ReuseInfo(copyright_lines={NEW_C})
    if REQUEST == "terminator-inside":
        return ReuseInfo(spdx_expressions={ex._LICENSING.parse(NEW_L)}, copyright_lines={NEW_C})
    return ReuseInfo(spdx_expressions={ex._LICENSING.parse(NEW_L)}, copyright_lines={NEW_C}, contributor_lines={NEW_F})


def annotate_text(text, info=None):
    f = hd.find_and_replace_header if REPLACE else hd.add_new_header
    return f(text, info or new_info(), style=STYLE, force_multi=MULTI, merge_copyrights=MERGE)


def read(text):
    """(copyright, licences, contributors) as sorted lists, or None when the reader raises."""
    try:
        i = ex.extract_reuse_info(text)
    except Exception:  # noqa
        return None
    return sorted(i.copyright_lines), sorted(str(e) for e in i.spdx_expressions), sorted(i.contributor_lines)


# ------------------------------------------------------------------ C10: idempotence
CARVE = set(PARAMS.get("carve", []))


def known_key():
    """Known finding: a style whose multi-line start begins with its single-line marker (Julia '#=' vs '#')
    never finds its own multi-line header again (single-line detection is tried first)."""
    if MULTI and STYLE.can_handle_single() and STYLE.MULTI_LINE.start and STYLE.MULTI_LINE.start.startswith(STYLE.SINGLE_LINE):
        return "multiline-start-shadows-single-marker"
    return None


def idem_story(k0, k1, k2, k3, final_nl):
    items, lines, spans, text = scenario(k0, k1, k2, k3, final_nl)
    try:
        once = annotate_text(text)
    except (CommentCreateError, MissingReuseInfoError):
        return None, items, text, None, None  # refused: nothing written (C11's subject)
    try:
        twice = annotate_text(once)
    except (CommentCreateError, MissingReuseInfoError):
        return "second run refused what the first run wrote", items, text, once, None
    if twice != once:
        return "second run changed the file", items, text, once, twice
    return None, items, text, once, twice


def _idem(k0: int, k1: int, k2: int, k3: int, final_nl: bool) -> bool:
    """
    pre: _pre(k0, k1, k2, k3)
    post: _
    """
    return idem_story(k0, k1, k2, k3, final_nl)[0] is None or known_key() in CARVE


def _idem_reach(k0: int, k1: int, k2: int, k3: int, final_nl: bool) -> bool:
    """
    pre: _pre(k0, k1, k2, k3)
    post: False
    """
    return idem_story(k0, k1, k2, k3, final_nl)[0] is None


def explain_idem(*a):
    why, items, text, once, twice = idem_story(*a)
    return {"style": STYLE.__name__, "multi": MULTI, "replace": REPLACE, "body": items, "text": text, "after_first_run": once, "after_second_run": twice, "why": why, "known_key": known_key(), "request": REQUEST}


# ------------------------------------------------------------------ C09: information only accumulates
def acc_story(k0, k1, k2, k3, final_nl):
    items, lines, spans, text = scenario(k0, k1, k2, k3, final_nl)
    before = read(text)
    if before is None:
        return None, items, text, None, None, None
    try:
        out = annotate_text(text)
    except (CommentCreateError, MissingReuseInfoError):
        return None, items, text, None, before, None
    after = read(out)
    if after is None:
        return "the annotated file cannot be read any more", items, text, out, before, after
    want_c = set(before[0]) | ({NEW_C} if REQUEST in ("full", "copyright-only", "two-years", "case-twin", "terminator-inside", "verbatim-notice") else set())
    want_l = set(before[1]) | ({NEW_L} if REQUEST in ("full", "licence-only", "case-twin", "terminator-inside") else set())
    want_f = set(before[2]) | ({NEW_F} if REQUEST in ("full", "contributor-only", "case-twin") else set())
    if MERGE:
        # same holders remain, each with a year range covering all years stated before
        def holders(notices):
            out = {}
            for n in notices:
                for p in ex._COPYRIGHT_PATTERNS:
                    m = p.search(n)
                    if m is not None:
                        g = m.groupdict()
                        y = g["year"]
                        ys = [] if not y else ([str(y)] if len(y) == 4 else [str(y)[:4], str(y)[-4:]])  # own reading of 'YYYY' / 'YYYY - YYYY'
                        out.setdefault(str(g["statement"]), []).extend(ys)
                        break
            return out

        hb, ha = holders(want_c), holders(after[0])
        ok_c = sorted(hb) == sorted(h for h in ha if h in hb) and all((not ys) or (ha[h] and min(ha[h]) <= min(ys) and max(ha[h]) >= max(ys)) for h, ys in hb.items())
    else:
        ok_c = want_c <= set(after[0])
    if not ok_c:
        return "a copyright notice was lost", items, text, out, before, after
    if not want_l <= set(after[1]):
        return "a licence expression was lost", items, text, out, before, after
    if not want_f <= set(after[2]):
        return "a contributor was lost", items, text, out, before, after
    return None, items, text, out, before, after


def _acc(k0: int, k1: int, k2: int, k3: int, final_nl: bool) -> bool:
    """
    pre: _pre(k0, k1, k2, k3)
    post: _
    """
    return acc_story(k0, k1, k2, k3, final_nl)[0] is None


def _acc_reach(k0: int, k1: int, k2: int, k3: int, final_nl: bool) -> bool:
    """
    pre: _pre(k0, k1, k2, k3)
    post: False
    """
    return acc_story(k0, k1, k2, k3, final_nl)[0] is None


def explain_acc(*a):
    why, items, text, out, before, after = acc_story(*a)
    return {"style": STYLE.__name__, "multi": MULTI, "replace": REPLACE, "merge": MERGE, "body": items, "text": text, "output": out, "declared_before": before, "declared_after": after, "why": why}


# ------------------------------------------------------------------ C08: nothing but the header changes
def _nonblank(ls):
    return [l for l in ls if l.strip()]


def keep_story(k0, k1, k2, k3, final_nl):
    items, lines, spans, text = scenario(k0, k1, k2, k3, final_nl)
    try:
        out = annotate_text(text)
    except (CommentCreateError, MissingReuseInfoError):
        return None, items, text, None, None
    # reference decomposition: which input lines may disappear (the replaced block B minus shebang lines S)
    single = STYLE.can_handle_single()

    def is_own_comment_line(l):
        if not single:
            return False
        if STYLE.SINGLE_LINE_REGEXP is not None and STYLE.SINGLE_LINE_REGEXP.match(l):
            return True
        return l.startswith(STYLE.SINGLE_LINE)

    removable = set()
    hdr = [s for s in spans if s[0] in ("old-header", "long-header")]
    if REPLACE and STYLE is cm.EmptyCommentStyle:
        removable = set(range(len(lines)))  # a .license file is its header: it is replaced as a whole
    elif REPLACE and hdr:
        _k, a, b = hdr[0]
        first_block_with_info = True
        if first_block_with_info:
            lo, hi = a, b
            header_is_multi = MULTI or not STYLE.can_handle_single()
            if not header_is_multi and is_own_comment_line(lines[a]):
                # single-line form: the block is the maximal run of the style's comment lines around it
                while lo > 0 and is_own_comment_line(lines[lo - 1]):
                    lo -= 1
                while hi < len(lines) and is_own_comment_line(lines[hi]):
                    hi += 1
            removable = set(range(lo, hi))
    # leading lines that look like one of the style's shebangs are kept (moved above the header)
    shebang_lines = set()
    if STYLE.SHEBANGS and lines:
        # the first-line declaration: the first of the style's prefixes the first line starts with; the lines
        # that directly follow and start with the SAME prefix belong to it
        pref = None
        for sb in STYLE.SHEBANGS:
            if lines[0].startswith(sb):
                pref = sb
                break
        if pref is not None:
            for i, l in enumerate(lines):
                if l.startswith(pref):
                    shebang_lines.add(i)
                else:
                    break
    # a shebang run only counts when nothing but it precedes the header / the code
    removable -= shebang_lines
    out_lines = out.split("\n")
    got = _nonblank(out_lines)

    def block_problem(inserted):
        """None if `inserted` is exactly one header block of the file's style holding the new information."""
        info = read("\n".join(inserted))
        marker_ok = info is not None and ((NEW_C in info[0]) if REQUEST in ("full", "copyright-only", "two-years", "case-twin", "terminator-inside", "verbatim-notice") else (NEW_L in info[1]) if REQUEST == "licence-only" else (NEW_F in info[2]))
        if not marker_ok:
            return "the inserted block is not the new header", {"inserted": inserted[:6]}
        if STYLE is not cm.EmptyCommentStyle:
            uses_multi = MULTI or not STYLE.can_handle_single()
            if not uses_multi:
                stray = [l for l in inserted if not is_own_comment_line(l)]
            else:
                ends = [n for n, l in enumerate(inserted) if l.rstrip().endswith(STYLE.MULTI_LINE.end)]
                good = bool(inserted) and inserted[0].startswith(STYLE.MULTI_LINE.start) and bool(ends) and ends[0] == len(inserted) - 1
                stray = [] if good else (inserted[(ends[0] + 1) :] if ends and ends[0] < len(inserted) - 1 else ["<not one terminated block>"])
                if good:
                    # a comment closes at the FIRST occurrence of its terminator, wherever on a line that is
                    inner = [l for l in inserted[:-1] if STYLE.MULTI_LINE.end in l] + ([inserted[-1]] if inserted[-1].rstrip()[: -len(STYLE.MULTI_LINE.end)].find(STYLE.MULTI_LINE.end) >= 0 else [])
                    if inner:
                        stray = ["<the comment closes early> " + inner[0]]
            if stray:
                return "stray text was left next to the header", {"stray": stray[:3]}
        return None

    # got must be the kept lines with one contiguous block (the header) inserted; whether the old block was
    # found and replaced is not this property's business (C09/C10), so both readings are accepted; where the
    # split between "kept before" and "kept after" is ambiguous every split is tried
    fit, problem = None, None
    for rem in (removable, set()):
        kept = [l for i, l in enumerate(lines) if i not in rem]
        want = _nonblank(kept)
        if len(got) < len(want):
            continue
        maxi = 0
        while maxi < len(want) and got[maxi] == want[maxi]:
            maxi += 1
        for i in range(maxi, -1, -1):
            j = len(want) - i
            if j and got[len(got) - j :] != want[i:]:
                continue
            inserted = got[i : len(got) - j]
            pr = block_problem(inserted)
            if pr is None:
                fit = (i, j, kept)
                break
            problem = problem or pr
        if fit:
            break
    if fit is None:
        if problem is not None:
            return problem[0], items, text, out, problem[1]
        return "a line outside the header block was changed, dropped or reordered", items, text, out, {"input_nonblank": _nonblank(lines), "output_nonblank": got}
    i, j, kept = fit
    # what precedes the header in the input (everything up to the replaced block; or the shebang run when the header
    # goes to the top) must precede it in the output unchanged, apart from trailing white space next to the header
    rem_used = removable if [l for x, l in enumerate(lines) if x not in removable] == kept else set()
    if rem_used:
        before_in = "\n".join(lines[: min(rem_used)])
    else:
        before_in = "\n".join(lines[x] for x in sorted(shebang_lines))
    if before_in.strip() and not out.startswith(before_in.rstrip()):
        return "text before the header was changed (leading blank lines / indentation)", items, text, out, {"before": before_in}
    # shebang lines stay first
    sb = [lines[x] for x in sorted(shebang_lines)]
    if sb and got[: len(sb)] != sb:
        return "shebang lines do not stay first", items, text, out, {"shebang": sb, "output_head": got[:3]}
    # final newline: present in the output iff present in the input, unless what follows the header is blank
    if text.strip() and [l for l in kept if l.strip()] and j > 0:
        if out.endswith("\n") != text.endswith("\n"):
            return "presence of the final newline changed", items, text, out, {}
    return None, items, text, out, {}


def _keep(k0: int, k1: int, k2: int, k3: int, final_nl: bool) -> bool:
    """
    pre: _pre(k0, k1, k2, k3)
    post: _
    """
    return keep_story(k0, k1, k2, k3, final_nl)[0] is None


def _keep_reach(k0: int, k1: int, k2: int, k3: int, final_nl: bool) -> bool:
    """
    pre: _pre(k0, k1, k2, k3)
    post: False
    """
    return keep_story(k0, k1, k2, k3, final_nl)[0] is None


def explain_keep(*a):
    why, items, text, out, detail = keep_story(*a)
    return {"style": STYLE.__name__, "multi": MULTI, "replace": REPLACE, "body": items, "text": text, "output": out, "why": why, "detail": detail}


EXPLAIN = {"_idem": explain_idem, "_acc": explain_acc, "_keep": explain_keep}


# ------------------------------------------------------------------ C08 file level: line endings, BOM, final newline
ENDINGS = ["\n", "\r\n", "\r"]


class MemFS:
    def __init__(self):
        self.files = {}

    def open(self, path, mode="r", encoding=None, newline=None):
        fs = self
        p = str(path)
        if "r" in mode:
            if p not in fs.files:
                raise FileNotFoundError(2, "no such file", p)
            raw = fs.files[p]
            if encoding and encoding.lower().replace("_", "-") == "utf-8-sig" and raw.startswith("\ufeff"):
                raw = raw[1:]  # the BOM-aware codec swallows the mark on reading
            if newline is None:
                raw = raw.replace("\r\n", "\n").replace("\r", "\n")  # universal newlines
            return io.StringIO(raw)

        class W(io.StringIO):
            def close(self2):
                data = self2.getvalue()
                if newline is None:
                    import os as _os

                    data = data.replace("\n", _os.linesep)
                elif newline not in ("", "\n"):
                    data = data.replace("\n", newline)
                if encoding and encoding.lower().replace("_", "-") == "utf-8-sig":
                    data = "\ufeff" + data
                fs.files[p] = data
                super().close()

            def __exit__(self2, *a):
                self2.close()
                return False

        return W()


def file_story(k0, k1, e, final_nl, bom):
    items, lines, spans, text = scenario(k0, k1, 0, 0, final_nl)
    ending = ENDINGS[_pick_from(e, [0, 1, 2])]
    raw = ("﻿" if bom else "") + text.replace("\n", ending)
    fs = MemFS()
    name = "/proj/f" + PARAMS.get("ext", ".py")
    fs.files[name] = raw
    saved = an.open if hasattr(an, "open") else None
    an.open = fs.open
    out = io.StringIO()
    try:
        rc = an.add_header_to_file(name, new_info(), None, False, STYLE.SHORTHAND or None, force_multi=MULTI, out=out)
    finally:
        if saved is None:
            del an.open
        else:
            an.open = saved
    got = fs.files[name]
    if rc != 0:
        return (None if got == raw else "a refused annotation changed the file"), items, raw, got
    # 1. only the file's own line-ending convention (LF when the file had no line break at all)
    conv = ending if ending in raw else "\n"
    rest = got.replace(conv, "")
    if "\r" in rest or "\n" in rest:
        return "the file no longer uses one line-ending convention", items, raw, got
    if ending in raw and conv != "\n" and "\n" in got.replace("\r\n", ""):
        return "bare LF introduced", items, raw, got
    # 2. file level == text level
    norm_in = raw.replace(ending, "\n") if ending in raw else raw
    mark = "\ufeff" if norm_in.startswith("\ufeff") else ""
    try:
        want = mark + annotate_text(norm_in[len(mark) :])  # the mark is not text: it stays where it is
    except (CommentCreateError, MissingReuseInfoError):
        return "file written although the text-level call refuses", items, raw, got
    if got.replace(conv, "\n") != want:
        return ("byte order mark no longer first" if mark and not got.startswith(mark) else "file content differs from the text-level result"), items, raw, got
    # 3. a byte order mark stays first (and in any case is not lost, except that a .license file is rewritten whole)
    if bom and "﻿" not in got and STYLE is not cm.EmptyCommentStyle:
        return "byte order mark dropped", items, raw, got
    if bom and not got.startswith("﻿"):
        return "byte order mark no longer first", items, raw, got
    return None, items, raw, got


def _file(k0: int, k1: int, e: int, final_nl: bool, bom: bool) -> bool:
    """
    pre: _member(k0, ALLOWED) and _member(k1, ALLOWED) and _member(e, [0, 1, 2])
    post: _
    """
    why = file_story(k0, k1, e, final_nl, bom)[0]
    return why is None or (why == "byte order mark no longer first" and "bom-not-first" in CARVE)


def _file_reach(k0: int, k1: int, e: int, final_nl: bool, bom: bool) -> bool:
    """
    pre: _member(k0, ALLOWED) and _member(k1, ALLOWED) and _member(e, [0, 1, 2])
    post: False
    """
    return file_story(k0, k1, e, final_nl, bom)[0] is None


def explain_file(*a):
    why, items, raw, got = file_story(*a)
    return {"style": STYLE.__name__, "body": items, "text": raw, "output": got, "why": why, "detail": None, "multi": MULTI, "replace": True}


EXPLAIN["_file"] = explain_file


# ------------------------------------------------------------------ C10: a re-run happens in another process
# The requested lines are sets; their iteration order differs from one interpreter process to the next (string
# hashing is seeded per process).  Whatever order a set is iterated in, the header must come out the same -
# otherwise the second run, in a new process, rewrites the file.  The iteration order is a symbolic choice here.
class OrderedLines(list):
    """Stands for a set of lines iterated in the order given."""

    __hash__ = None

    def __eq__(self, other):
        a, b = list(self), list(other)
        return len(a) == len(b) and all(x in b for x in a)

    def __ne__(self, other):
        return not self.__eq__(other)

    def union(self, *others):
        out = OrderedLines(self)
        for o in others:
            for x in o:
                if x not in out:
                    out.append(x)
        return out

    __or__ = union

    def copy(self):
        return OrderedLines(self)


HOLDER_POOL = ["Acme Corp", "ACME Corp", "acme corp", "Beta Ltd", "Straße GmbH", "STRASSE GmbH", "strasse gmbh", "Ärzte e.V.", "ärzte e.V."]


def _pickn(i, n):
    for v in range(n):
        if i == v:
            return v
    return 0


def order_story(i, j, which):
    a = HOLDER_POOL[_pickn(i, len(HOLDER_POOL))]
    b = HOLDER_POOL[_pickn(j, len(HOLDER_POOL))]
    la, lb = ("SPDX-FileCopyrightText: 2020 " + a, "SPDX-FileCopyrightText: 2020 " + b) if not which else (a, b)
    outs = []
    for lines in ([la, lb], [lb, la]):
        if which:
            info = ReuseInfo(spdx_expressions={ex._LICENSING.parse(NEW_L)}, copyright_lines={NEW_C}, contributor_lines=OrderedLines(lines))
        else:
            info = ReuseInfo(spdx_expressions={ex._LICENSING.parse(NEW_L)}, copyright_lines=OrderedLines(lines), contributor_lines={NEW_F})
        try:
            outs.append(hd.add_new_header("x = 1\n", info, style=STYLE, force_multi=MULTI))
        except (CommentCreateError, MissingReuseInfoError):
            outs.append(None)
    why = None if outs[0] == outs[1] else "the header depends on the iteration order of the requested set: a second run in a new process (other string hash seed) rewrites the file"
    return why, [la, lb], outs


def _order(i: int, j: int, which: bool) -> bool:
    """
    pre: 0 <= i < len(HOLDER_POOL) and 0 <= j < len(HOLDER_POOL) and i != j
    post: _
    """
    return order_story(i, j, which)[0] is None


def _order_reach(i: int, j: int, which: bool) -> bool:
    """
    pre: 0 <= i < len(HOLDER_POOL) and 0 <= j < len(HOLDER_POOL) and i != j
    post: False
    """
    return order_story(i, j, which)[0] is None


def explain_order(*a):
    why, lines, outs = order_story(*a)
    return {"style": STYLE.__name__, "multi": MULTI, "lines": lines, "kind": "contributors" if a[2] else "copyright", "header_in_one_order": outs[0], "header_in_the_other_order": outs[1], "why": why}


EXPLAIN["_order"] = explain_order


# ------------------------------------------------------------------ C07 file level: the linter reads the written FILE back
# (whatever line-ending convention, byte order mark and final newline the file has)
def fileread_story(k0, k1, e, final_nl, bom):
    why, items, raw, got = file_story(k0, k1, e, final_nl, bom)
    if why is not None or got == raw:
        return None, items, raw, got, None  # refusals and file-level defects are C08's / C11's subject
    data = got.encode("utf-8")
    try:
        text = ex.decoded_text_from_binary(io.BytesIO(data), size=4096)
        info = ex.extract_reuse_info(text)
    except Exception as exc:  # noqa
        return "the linter cannot read the file annotate wrote: " + type(exc).__name__, items, raw, got, None
    seen = (sorted(info.copyright_lines), sorted(str(x) for x in info.spdx_expressions), sorted(info.contributor_lines))
    if REQUEST in ("full", "copyright-only", "two-years", "case-twin", "terminator-inside", "verbatim-notice") and NEW_C not in info.copyright_lines:
        return "the requested copyright notice is not read back from the written file", items, raw, got, seen
    if REQUEST in ("full", "licence-only", "case-twin", "terminator-inside") and NEW_L not in seen[1]:
        return "the requested licence is not read back from the written file", items, raw, got, seen
    if REQUEST in ("full", "contributor-only", "case-twin") and NEW_F not in info.contributor_lines:
        return "the requested contributor is not read back from the written file", items, raw, got, seen
    return None, items, raw, got, seen


def _fileread(k0: int, k1: int, e: int, final_nl: bool, bom: bool) -> bool:
    """
    pre: _member(k0, ALLOWED) and _member(k1, ALLOWED) and _member(e, [0, 1, 2])
    post: _
    """
    return fileread_story(k0, k1, e, final_nl, bom)[0] is None


def _fileread_reach(k0: int, k1: int, e: int, final_nl: bool, bom: bool) -> bool:
    """
    pre: _member(k0, ALLOWED) and _member(k1, ALLOWED) and _member(e, [0, 1, 2])
    post: False
    """
    return fileread_story(k0, k1, e, final_nl, bom)[0] is None


def explain_fileread(*a):
    why, items, raw, got, seen = fileread_story(*a)
    return {"style": STYLE.__name__, "multi": MULTI, "body": items, "text": raw, "written": got, "read_back": seen, "why": why}


EXPLAIN["_fileread"] = explain_fileread
