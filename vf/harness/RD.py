"""C16 harness: the content of the file being annotated / of a licence text never ends a command in a traceback.

Real code: _annotate.add_header_to_file with the real find_and_replace_header / add_new_header /
contains_reuse_info chain below it, and ProjectReport.bill_of_materials (licence-text section).
Environment model: a dict-backed `open`; reading in text mode either yields the text or - the documented
contract of open(encoding="utf-8") on bytes that are not UTF-8 - raises UnicodeDecodeError. Which of the
two happens, which content the file has, the comment style and the annotate options are symbolic."""
import io
from pathlib import PosixPath

from vf.harness.common import PARAMS, NativeLicensing, nativize_pathlib

import reuse._annotate as an
import reuse._util as ut
import reuse.extract as ex
import reuse.report as rp
from reuse import ReuseInfo

nativize_pathlib()
ex._LICENSING = NativeLicensing(ex._LICENSING)

EXTS = [".py", ".c", ".html", ".xyz"]
HEAD = {
    ".py": "# {}\n",
    ".c": "// {}\n",
    ".html": "<!-- {} -->\n",
    ".xyz": "{}\n",
}
BAD = ["MIT AND", "(GPL-2.0-only OR", "MIT OR OR 0BSD", "AND", "MIT WITH", "()"]
# content kinds: what the file holds
KINDS = ["plain", "bad-expression-on-top", "bad-expression-further-down", "valid-on-top-bad-further-down", "only-bad-expression", "empty"]


def content(kind, ext, bad):
    line = HEAD[ext]
    body = "x = 1\n\ny = 2\n"
    if kind == "plain":
        return body
    if kind == "empty":
        return ""
    badline = line.format("SPDX-License-Identifier: " + bad)
    good = line.format("SPDX-FileCopyrightText: 2019 Old") + line.format("SPDX-License-Identifier: 0BSD")
    if kind == "bad-expression-on-top":
        return line.format("SPDX-FileCopyrightText: 2019 Old") + badline + "\n" + body
    if kind == "bad-expression-further-down":
        return body + "\n" + badline + "z = 3\n"
    if kind == "valid-on-top-bad-further-down":
        return good + "\n" + body + "\n" + badline
    return badline


class FS:
    files = {}
    undecodable = set()


class FakePath(PosixPath):
    def exists(self):
        return str(self) in FS.files

    def is_file(self):
        return str(self) in FS.files

    def resolve(self, strict=False):
        return self

    def touch(self, mode=0o666, exist_ok=True):
        FS.files.setdefault(str(self), "")

    def unlink(self, missing_ok=False):
        FS.files.pop(str(self), None)

    def open(self, mode="r", encoding=None, errors=None, newline=None, buffering=-1):
        return fs_open(self, mode, encoding=encoding, errors=errors, newline=newline)


def fs_open(path, mode="r", encoding=None, errors=None, newline=None):
    p = str(path)
    if "r" in mode:
        if p not in FS.files:
            raise FileNotFoundError(2, "no such file", p)
        if p in FS.undecodable and "b" not in mode and errors in (None, "strict"):
            raise UnicodeDecodeError("utf-8", b"Jos\xe9", 3, 4, "invalid continuation byte")
        return io.StringIO(FS.files[p])

    class W(io.StringIO):
        def close(self2):
            FS.files[p] = self2.getvalue()
            super().close()

        def __exit__(self2, *a):
            self2.close()
            return False

    return W()


def _pick(i, n):
    for v in range(n):
        if i == v:
            return v
    return 0


def _b(x):
    return True if x else False


INFO = ReuseInfo(spdx_expressions={ex._LICENSING.parse("MIT")}, copyright_lines={"SPDX-FileCopyrightText: 2020 Jane Doe"})


def annotate_story(k, e, b, undec, replace, skip_existing, fallback):
    kind = KINDS[_pick(k, len(KINDS))]
    ext = EXTS[_pick(e, len(EXTS))]
    bad = BAD[_pick(b, len(BAD))]
    p = "/proj/src/f" + ext
    FS.files = {p: content(kind, ext, bad)}
    FS.undecodable = {p} if undec else set()
    if ext == ".xyz" and undec:
        # the header of an unrecognised file goes to its .license sibling: that is the file which is read
        FS.files[p + ".license"] = "old\n"
        FS.undecodable = {p + ".license"}
    before = dict(FS.files)
    saved = getattr(an, "open", None)
    saved_path = ut.Path
    an.open = fs_open
    ut.Path = FakePath
    out = io.StringIO()
    code = None
    try:
        try:
            code = an.add_header_to_file(
                FakePath(p),
                INFO,
                None,
                False,
                None,
                force_multi=False,
                skip_existing=_b(skip_existing),
                skip_unrecognised=False,
                fallback_dot_license=_b(fallback),
                merge_copyrights=False,
                replace=_b(replace),
                out=out,
            )
        except Exception as exc:  # noqa - whatever escapes here reaches the user as a traceback
            return "add_header_to_file let " + type(exc).__name__ + " escape", kind, ext, bad, before, dict(FS.files), None
    finally:
        ut.Path = saved_path
        if saved is None:
            del an.open
        else:
            an.open = saved
    after = dict(FS.files)
    if code not in (0, 1):
        return "add_header_to_file returned neither 0 nor 1", kind, ext, bad, before, after, code
    if undec:
        if code != 1:
            return "a file that cannot be decoded was reported as annotated (status 0)", kind, ext, bad, before, after, code
        if after != before:
            return "a file that cannot be decoded was changed, or something was left behind", kind, ext, bad, before, after, code
    elif code == 1 and after != before:
        return "status 1 but the tree changed", kind, ext, bad, before, after, code
    return None, kind, ext, bad, before, after, code


def _rd(k: int, e: int, b: int, undec: bool, replace: bool, skip_existing: bool, fallback: bool) -> bool:
    """
    pre: 0 <= k < len(KINDS) and 0 <= e < len(EXTS) and 0 <= b < len(BAD) and (e != 3 or fallback)
    post: _
    """
    return annotate_story(k, e, b, undec, replace, skip_existing, fallback)[0] is None


def _rd_reach(k: int, e: int, b: int, undec: bool, replace: bool, skip_existing: bool, fallback: bool) -> bool:
    """
    pre: 0 <= k < len(KINDS) and 0 <= e < len(EXTS) and 0 <= b < len(BAD) and (e != 3 or fallback)
    post: False
    """
    return annotate_story(k, e, b, undec, replace, skip_existing, fallback)[0] is None


def explain_rd(*a):
    why, kind, ext, bad, before, after, code = annotate_story(*a)
    return {"content": kind, "ext": ext, "bad_expression": bad, "undecodable": bool(a[3]), "replace": bool(a[4]), "skip_existing": bool(a[5]), "fallback_dot_license": bool(a[6]), "before": before, "after": after, "status": code, "why": why}


# ------------------------------------------------------------------ spdx: licence texts in the bill of materials
class _DT:
    class timezone:
        utc = None

    class datetime:
        @staticmethod
        def now(tz=None):
            class N:
                @staticmethod
                def strftime(fmt):
                    return "2020-01-02T03:04:05Z"

            return N()


rp.uuid4 = lambda: "00000000-0000-4000-8000-000000000000"  # random document id and timestamp are irrelevant here
rp.datetime = _DT


def bom_story(undec0, undec1, n):
    names = ["LicenseRef-a", "LicenseRef-b"][: 1 + _pick(n, 2)]
    FS.files = {}
    FS.undecodable = set()
    licenses = {}
    for i, name in enumerate(names):
        rel = "LICENSES/" + name + ".txt"
        FS.files["/proj/" + rel] = "text of " + name + "\n"
        licenses[name] = FakePath(rel)
        if (undec0, undec1)[i]:
            FS.undecodable.add("/proj/" + rel)
    report = rp.ProjectReport(do_checksum=False)
    report.path = "/proj"
    report.licenses = licenses
    report.file_reports = set()
    saved = rp.Path
    rp.Path = FakePath
    try:
        try:
            text = report.bill_of_materials(creator_person="Jane", creator_organization=None)
        except Exception as exc:  # noqa
            return "bill_of_materials let " + type(exc).__name__ + " escape", names, None
    finally:
        rp.Path = saved
    for name in names:
        if ("LicenseID: " + name + "\n") not in text:
            return "a LicenseRef- licence is missing from the bill of materials", names, text
    return None, names, text


def _bomrd(undec0: bool, undec1: bool, n: int) -> bool:
    """
    pre: 0 <= n < 2
    post: _
    """
    return bom_story(undec0, undec1, n)[0] is None


def _bomrd_reach(undec0: bool, undec1: bool, n: int) -> bool:
    """
    pre: 0 <= n < 2
    post: False
    """
    return bom_story(undec0, undec1, n)[0] is None


def explain_bomrd(*a):
    why, names, text = bom_story(*a)
    return {"licences": names, "undecodable": [bool(a[0]), bool(a[1])][: len(names)], "why": why}


EXPLAIN = {"_rd": explain_rd, "_bomrd": explain_bomrd}


# ------------------------------------------------------------------ download: the identifier comes from file content
# `download --all` asks for whatever identifiers the project's files declare.  urlopen's documented contract:
# http.client raises InvalidURL (not a URLError) when the request path contains a blank or a control character.
import http.client as _hc  # noqa: E402

import reuse.download as dlm  # noqa: E402

ID_CARRIER = PARAMS.get("id_carrier", "My{}License")


class _Resp:
    def __enter__(self):
        return self

    def __exit__(self, *a):
        return False

    def getcode(self):
        return 404


def url_story(c0):
    ident = ID_CARRIER.replace("{}", chr(c0))
    seen = []

    def fake_urlopen(url, *a, **k):
        seen.append(url)
        # the part of http.client.HTTPConnection._validate_path that matters here (blank, control character, DEL)
        for ch in url:
            o = ord(ch)
            if o <= 32 or o == 127:
                raise _hc.InvalidURL("URL can't contain control characters.")
        return _Resp()

    saved = dlm.urllib.request.urlopen
    dlm.urllib.request.urlopen = fake_urlopen
    try:
        try:
            dlm.download_license(ident)
        except dlm.URLError:
            return None, ident, seen  # the documented failure: reported as "could not download"
        except Exception as exc:  # noqa
            return "download_license let " + type(exc).__name__ + " escape for an identifier a file may declare", ident, seen
    finally:
        dlm.urllib.request.urlopen = saved
    return "a 404 answer was not reported as URLError", ident, seen


EXTRA = [0x80, 0x85, 0xA0, 0xFF, 0x100, 0x2028, 0x3000, 0xFFFD, 0x10FFFF]


def _extra(c):
    for v in EXTRA:
        if c == v:
            return True
    return False


def _url(c0: int) -> bool:
    """
    pre: 0 <= c0 < 128 or _extra(c0)
    post: _
    """
    return url_story(c0)[0] is None


def _url_reach(c0: int) -> bool:
    """
    pre: 0 <= c0 < 128 or _extra(c0)
    post: False
    """
    return url_story(c0)[0] is None


def explain_url(c0):
    why, ident, seen = url_story(c0)
    return {"identifier": ident, "url": [ascii(u) for u in seen], "why": why}


EXPLAIN["_url"] = explain_url
