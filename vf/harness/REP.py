"""Report-aggregation harness shared by C01 (verdict = compliance), C06 (licence inventory),
C13 (formats agree) and C14 (order independence).

Real code executed: Project._find_licenses / _identifier_of_license (directory listing stubbed),
_generate_file_reports, _MultiprocessingContainer, FileReport.generate (classification loop),
ProjectReport.generate, used/unused/files_without_*, is_compliant, to_dict_lint, the four
formatters, ProjectSubsetReport.  Stubbed: project.reuse_info_of (C02/C04 own it), all_files
(C03 owns it), Path.is_file/exists/is_dir, glob.iglob.
"""
import json as _json
from pathlib import Path, PosixPath

from vf.harness.common import PARAMS, NativeLicensing, native, nativize_pathlib

import reuse.project as pj
import reuse.report as rp
import reuse.lint as li
from reuse import ReuseInfo, SourceType, _LICENSING
from reuse._licenses import EXCEPTION_MAP, LICENSE_MAP

nativize_pathlib()
rp._LICENSING = NativeLicensing(rp._LICENSING)

class _Rand:
    """Deterministic stand-in for the `random` module inside reuse.report (the random pseudo-checksum
    is irrelevant to these properties; CrossHair would make getrandbits symbolic)."""

    n = 0

    @classmethod
    def getrandbits(cls, k):
        cls.n += 1
        return 0xABCDEF0000 + cls.n


rp.random = _Rand

ROOT = Path("/proj")
# one representative per identifier class, with the real bundled SPDX records
KNOWN_IDS = ["MIT", "GPL-3.0", "GPL-2.0-or-later", "Classpath-exception-2.0"]
BASE_MAP = {k: (LICENSE_MAP.get(k) or EXCEPTION_MAP[k]) for k in KNOWN_IDS}
assert BASE_MAP["GPL-3.0"]["isDeprecatedLicenseId"] and not BASE_MAP["MIT"]["isDeprecatedLicenseId"]

# expression used by a file -> the identifiers it names (written by hand: independent of license_keys)
EXPRS = [
    (None, []),
    ("MIT", ["MIT"]),
    ("MIT+", ["MIT+"]),
    ("GPL-3.0", ["GPL-3.0"]),
    ("LicenseRef-x", ["LicenseRef-x"]),
    ("Foo", ["Foo"]),
    ("mit", ["mit"]),
    ("MIT AND Foo", ["MIT", "Foo"]),
    ("(MIT OR GPL-3.0)", ["MIT", "GPL-3.0"]),
    ("GPL-2.0-or-later WITH Classpath-exception-2.0", ["GPL-2.0-or-later", "Classpath-exception-2.0"]),
    ("LicenseRef-x+ AND (MIT)", ["LicenseRef-x+", "MIT"]),
    ("LicenseRef-a_b", ["LicenseRef-a_b"]),  # malformed LicenseRef (underscore): not a valid identifier
    ("(MIT OR Foo) AND MIT", ["MIT", "Foo", "MIT"]),  # a repeated identifier: Boolean absorption must not hide 'Foo'
    ("GPL-3.0 OR (GPL-3.0 AND LicenseRef-x)", ["GPL-3.0", "GPL-3.0", "LicenseRef-x"]),
]
PARSED = [None if e is None else _LICENSING.parse(e) for e, _ in EXPRS]
# provision forms of one identifier in LICENSES/
FORMS = ["absent", "ID.txt", "ID.md", "ID", "sub/ID.txt", "ID+.txt", "ID.txt+license", "ID.txt+license.bak"]
PROV_IDS = ["MIT", "GPL-3.0", "LicenseRef-x", "Foo", "GPL-2.0-or-later", "Classpath-exception-2.0", "LicenseRef-a_b"]
FILES = [ROOT / "src" / "a.py", ROOT / "doc" / "b c.txt", ROOT / "ü.rs"]

NFILES = int(PARAMS.get("nfiles", 1))
FIX = PARAMS.get("fix", {})  # name -> fixed value for a scenario dimension
PROV_SYM = PARAMS.get("prov_ids", ["MIT", "GPL-3.0", "LicenseRef-x"])  # identifiers whose provision is symbolic
FORMS_SYM = PARAMS.get("forms", [0, 1])  # allowed form indices for symbolic provisions
EXPR_SYM = PARAMS.get("exprs", list(range(len(EXPRS))))
CARVE = set(PARAMS.get("carve", []))
MODE = PARAMS.get("mode", "inventory")


class FakePath(PosixPath):
    """Every path 'exists'; directories are those the listing says."""

    _dirs = set()

    def is_file(self):
        return str(self) not in FakePath._dirs

    def exists(self):
        return True

    def is_dir(self):
        return str(self) in FakePath._dirs

    def resolve(self, strict=False):
        return self


def _pick_from(i, allowed):
    for v in allowed:
        if i == v:
            return v
    return allowed[0]


import re as _re

_REF = _re.compile(r"LicenseRef-[A-Za-z0-9.\-]+\Z")  # SPDX idstring; written from the SPDX spec, not copied from reuse


def is_ref(x):
    return bool(_REF.match(x))


def strip_plus(x):
    return x[:-1] if x.endswith("+") else x


def scenario(e0, c0, r0, e1, c1, r1, p0, p1, p2):
    """Decode symbolic selectors: per file the expression index, has-copyright, read-error;
    per PROV_SYM identifier its provision form."""
    files = []
    for i, (e, c, r) in enumerate(((e0, c0, r0), (e1, c1, r1))[:NFILES]):
        name = f"file{i}"
        if name in FIX:
            err, cop, ex = FIX[name]
        else:
            ex = _pick_from(e, EXPR_SYM)
            cop = FIX["cop"] if "cop" in FIX else (True if c else False)
            err = FIX["err"] if "err" in FIX else (True if r else False)
        files.append((bool(err), bool(cop), ex))
    prov = {}
    for idx, (pid, p) in enumerate(zip(PROV_SYM, (p0, p1, p2))):
        name = f"prov:{pid}"
        prov[pid] = FIX[name] if name in FIX else _pick_from(p, FORMS_SYM)
    for pid in PROV_IDS:
        prov.setdefault(pid, FIX.get(f"prov:{pid}", 0))
    return files, prov


def listing(prov):
    """The directory listing of LICENSES/** for a provision map (as glob.iglob would return it)."""
    out, dirs = [str(ROOT / "LICENSES")], {str(ROOT / "LICENSES")}
    for pid, form in prov.items():
        f = FORMS[form]
        if f == "absent":
            continue
        if f == "ID.txt":
            out.append(str(ROOT / "LICENSES" / f"{pid}.txt"))
        elif f == "ID.md":
            out.append(str(ROOT / "LICENSES" / f"{pid}.md"))
        elif f == "ID":
            out.append(str(ROOT / "LICENSES" / pid))
        elif f == "sub/ID.txt":
            dirs.add(str(ROOT / "LICENSES" / "sub"))
            if str(ROOT / "LICENSES" / "sub") not in out:
                out.append(str(ROOT / "LICENSES" / "sub"))
            out.append(str(ROOT / "LICENSES" / "sub" / f"{pid}.txt"))
        elif f == "ID+.txt":
            out.append(str(ROOT / "LICENSES" / f"{pid}+.txt"))
        elif f == "ID.txt+license":
            out.append(str(ROOT / "LICENSES" / f"{pid}.txt"))
            out.append(str(ROOT / "LICENSES" / f"{pid}.txt.license"))
        elif f == "ID.txt+license.bak":  # a backup of a sidecar: '.license' is a suffix, but not the last one
            out.append(str(ROOT / "LICENSES" / f"{pid}.txt"))
            out.append(str(ROOT / "LICENSES" / f"{pid}.txt.license.bak"))
    return out, dirs


class FakeProject(pj.Project):
    """Real Project with the two file-system walks replaced."""

    def all_files(self, directory=None):
        return iter(self._vf_files)

    def subset_files(self, files, directory=None):
        return iter([p for p in self._vf_files if p in set(files)])

    def reuse_info_of(self, path):
        err, cop, e = self._vf_info[Path(path)]
        if err:
            raise PermissionError(13, "denied", str(path))
        return _mk_infos(bool(cop), int(e), str(Path(path).relative_to(ROOT)))


@native
def _mk_infos(cop, e, rel):
    """Built natively: hashing boolean.py expression objects under CrossHair's symbolic hash() fails."""
    info = ReuseInfo(
        spdx_expressions={PARSED[e]} if PARSED[e] is not None else set(),
        copyright_lines={"2020 Jane Doe"} if cop else set(),
        path=rel,
        source_path=rel,
        source_type=SourceType.FILE_HEADER,
    )
    return [info] if info.contains_copyright_or_licensing() else []


def build_project(files, prov, order=None):
    lst, dirs = listing(prov)
    if order:
        lst = [lst[0]] + [lst[1:][i] for i in order if i < len(lst) - 1] + [x for j, x in enumerate(lst[1:]) if j not in order]
    FakePath._dirs = dirs
    saved = (pj.Path, rp.Path, pj.glob.iglob)
    pj.Path = FakePath
    rp.Path = FakePath
    pj.glob.iglob = lambda pattern, recursive=False: iter(lst)
    try:
        project = FakeProject(FakePath(ROOT), vcs_strategy=None, global_licensing=None, license_map=dict(BASE_MAP))
        project._vf_files = [FakePath(p) for p in FILES[: len(files)]]
        project._vf_info = {Path(p): f for p, f in zip(FILES, files)}
        project.licenses = project._find_licenses()
    finally:
        pj.glob.iglob = saved[2]
    return project, saved


def real_report(files, prov, subset=None):
    project, saved = build_project(files, prov)
    try:
        if subset is None:
            rep = rp.ProjectReport.generate(project, do_checksum=False, multiprocessing=False)
        else:
            rep = rp.ProjectSubsetReport.generate(project, subset, multiprocessing=False)
    finally:
        pj.Path, rp.Path = saved[0], saved[1]
    return project, rep


# ------------------------------------------------------------------ the statement's model
def model(files, prov):
    """Independent model of C01/C06 on the decoded scenario."""
    spdx = set(KNOWN_IDS)
    deprecated_ids = {"GPL-3.0"}
    # LICENSES/ entries: (identifier, has_extension)
    entries = []
    for pid, form in prov.items():
        f = FORMS[form]
        if f == "absent":
            continue
        if f in ("ID.txt", "ID.md", "sub/ID.txt", "ID.txt+license"):
            entries.append((pid, True, f))
        elif f == "ID":
            entries.append((pid, False, f))
        elif f == "ID+.txt":
            entries.append((pid + "+", True, f))
        elif f == "ID.txt+license.bak":
            entries.append((pid, True, f))
            entries.append((pid + ".txt.license", True, f))  # an entry like any other: named by its stem
    provided = {e[0] for e in entries}
    used = set()
    missing, bad = {}, {}
    no_cop, no_lic, read_err = set(), set(), set()
    for path, (err, cop, e) in zip(FILES, files):
        if err:
            read_err.add(str(path))
            continue
        ids = EXPRS[e][1]
        if not cop:
            no_cop.add(str(path))
        if not ids:
            no_lic.add(str(path))
        for i in ids:
            used.add(i)
            base = strip_plus(i)
            if i not in provided and base not in provided:
                missing.setdefault(i, set()).add(str(path))
            if base not in spdx and i not in spdx and not is_ref(base):
                bad.setdefault(i, set()).add(str(path))
    unused = {i for i in provided if i not in used and i + "+" not in used}
    deprecated = {i for i in provided if i in deprecated_ids}
    noext = set()
    for i, has_ext, f in entries:
        if not has_ext and i in spdx:
            noext.add(i)
        if i not in spdx and not is_ref(i):
            bad.setdefault(i, set()).add("LICENSES")
    compliant = not (missing or bad or unused or deprecated or noext or no_cop or no_lic or read_err)
    return {
        "missing": {k: sorted(v) for k, v in missing.items()},
        "bad": sorted(bad),
        "unused": sorted(unused),
        "deprecated": sorted(deprecated),
        "noext": sorted(noext),
        "no_copyright": sorted(no_cop),
        "no_licence": sorted(no_lic),
        "read_errors": sorted(read_err),
        "used": sorted(used),
        "compliant": compliant,
    }


def observed(rep):
    return {
        "missing": {k: sorted(str(p) for p in v) for k, v in rep.missing_licenses.items()},
        "bad": sorted(rep.bad_licenses),
        "unused": sorted(rep.unused_licenses),
        "deprecated": sorted(rep.deprecated_licenses),
        "noext": sorted(rep.licenses_without_extension),
        "no_copyright": sorted(str(p) for p in rep.files_without_copyright),
        "no_licence": sorted(str(p) for p in rep.files_without_licenses),
        "read_errors": sorted(str(p) for p in rep.read_errors),
        "used": sorted(rep.used_licenses),
        "compliant": rep.is_compliant,
    }


def known_key(files, prov, exp, got):
    """Known finding: a LicenseRef- identifier that is used but not provided is (also) reported as bad."""
    extra_bad = set(got["bad"]) - set(exp["bad"])
    if extra_bad and set(exp["bad"]) <= set(got["bad"]):
        if all(strip_plus(b).startswith("LicenseRef-") and b in exp["missing"] for b in extra_bad):
            g2 = dict(got, bad=exp["bad"])
            if g2 == exp:
                return "licenseref-unprovided-reported-bad"
    return None


def _member(x, allowed):
    for v in allowed:
        if x == v:
            return True
    return False


def _pre(e0, c0, r0, e1, c1, r1, p0, p1, p2):
    # selectors range exactly over the allowed values (no duplicate "anything else" branch);
    # selectors of fixed / unused dimensions are pinned to 0 and never looked at again
    ok = True
    for i, e in enumerate((e0, e1)):
        if i < NFILES and f"file{i}" not in FIX:
            ok = ok and _member(e, EXPR_SYM)
        else:
            ok = ok and e == 0
    for i, p in enumerate((p0, p1, p2)):
        if i < len(PROV_SYM) and f"prov:{PROV_SYM[i]}" not in FIX:
            ok = ok and _member(p, FORMS_SYM)
        else:
            ok = ok and p == 0
    return ok


def _inventory_body(e0, c0, r0, e1, c1, r1, p0, p1, p2):
    files, prov = scenario(e0, c0, r0, e1, c1, r1, p0, p1, p2)
    project, rep = real_report(files, prov)
    exp, got = model(files, prov), observed(rep)
    if exp == got:
        return True
    return known_key(files, prov, exp, got) in CARVE


def _inv(e0: int, c0: bool, r0: bool, e1: int, c1: bool, r1: bool, p0: int, p1: int, p2: int) -> bool:
    """
    pre: _pre(e0, c0, r0, e1, c1, r1, p0, p1, p2)
    post: _
    """
    return _inventory_body(e0, c0, r0, e1, c1, r1, p0, p1, p2)


def _inv_reach(e0: int, c0: bool, r0: bool, e1: int, c1: bool, r1: bool, p0: int, p1: int, p2: int) -> bool:
    """
    pre: _pre(e0, c0, r0, e1, c1, r1, p0, p1, p2)
    post: False
    """
    return _inventory_body(e0, c0, r0, e1, c1, r1, p0, p1, p2)


def explain_inv(e0, c0, r0, e1, c1, r1, p0, p1, p2):
    files, prov = scenario(e0, c0, r0, e1, c1, r1, p0, p1, p2)
    project, rep = real_report(files, prov)
    exp, got = model(files, prov), observed(rep)
    return {
        "files": [{"path": str(p), "read_error": f[0], "copyright": f[1], "expression": EXPRS[f[2]][0]} for p, f in zip(FILES, files)],
        "licenses_dir": [x for x in listing(prov)[0][1:]],
        "expected": exp,
        "got": got,
        "known_key": known_key(files, prov, exp, got),
    }


EXPLAIN = {"_inv": explain_inv}


# ------------------------------------------------------------------ C01: the lint command's exit status
import reuse.cli.lint as cl  # noqa: E402
import reuse.cli.lint_file as clf  # noqa: E402


class _Obj:
    def __init__(self, project):
        self.project = project
        self.no_multiprocessing = True


def _callback(cmd):
    cb = cmd.callback
    return getattr(cb, "__wrapped__", cb)


def lint_exit(files, prov, fmt="quiet"):
    """Run the real `lint` command body; -> (exit status, text written)."""
    project, saved = build_project(files, prov)
    out = []
    saved_echo = cl.click.echo
    cl.click.echo = lambda message=None, nl=True, **kw: out.append(str(message) + ("\n" if nl else ""))
    try:
        try:
            _callback(cl.lint)(_Obj(project), fmt == "quiet", fmt == "json", fmt == "plain", fmt == "lines")
            code = None
        except SystemExit as e:
            code = e.code
    finally:
        cl.click.echo = saved_echo
        pj.Path, rp.Path = saved[0], saved[1]
    return code, "".join(out)


def _lint_body(e0, c0, r0, e1, c1, r1, p0, p1, p2):
    files, prov = scenario(e0, c0, r0, e1, c1, r1, p0, p1, p2)
    code, _ = lint_exit(files, prov)
    exp = model(files, prov)
    return code == (0 if exp["compliant"] else 1)


def _lint(e0: int, c0: bool, r0: bool, e1: int, c1: bool, r1: bool, p0: int, p1: int, p2: int) -> bool:
    """
    pre: _pre(e0, c0, r0, e1, c1, r1, p0, p1, p2)
    post: _
    """
    return _lint_body(e0, c0, r0, e1, c1, r1, p0, p1, p2)


def _lint_reach(e0: int, c0: bool, r0: bool, e1: int, c1: bool, r1: bool, p0: int, p1: int, p2: int) -> bool:
    """
    pre: _pre(e0, c0, r0, e1, c1, r1, p0, p1, p2)
    post: False
    """
    return _lint_body(e0, c0, r0, e1, c1, r1, p0, p1, p2)


def explain_lint(e0, c0, r0, e1, c1, r1, p0, p1, p2):
    d = explain_inv(e0, c0, r0, e1, c1, r1, p0, p1, p2)
    files, prov = scenario(e0, c0, r0, e1, c1, r1, p0, p1, p2)
    d["exit"] = lint_exit(files, prov)[0]
    return d


EXPLAIN["_lint"] = explain_lint


def _c01_body(e0, c0, r0, e1, c1, r1, p0, p1, p2):
    files, prov = scenario(e0, c0, r0, e1, c1, r1, p0, p1, p2)
    exp = model(files, prov)
    code, _ = lint_exit(files, prov)
    if code != (0 if exp["compliant"] else 1):
        return False
    project, rep = real_report(files, prov)
    got = observed(rep)
    if exp == got:
        return True
    return known_key(files, prov, exp, got) in CARVE


def _c01(e0: int, c0: bool, r0: bool, e1: int, c1: bool, r1: bool, p0: int, p1: int, p2: int) -> bool:
    """
    pre: _pre(e0, c0, r0, e1, c1, r1, p0, p1, p2)
    post: _
    """
    return _c01_body(e0, c0, r0, e1, c1, r1, p0, p1, p2)


def _c01_reach(e0: int, c0: bool, r0: bool, e1: int, c1: bool, r1: bool, p0: int, p1: int, p2: int) -> bool:
    """
    pre: _pre(e0, c0, r0, e1, c1, r1, p0, p1, p2)
    post: False
    """
    return _c01_body(e0, c0, r0, e1, c1, r1, p0, p1, p2)


EXPLAIN["_c01"] = explain_lint


# ------------------------------------------------------------------ C13: the output formats tell the same story
@native
def parse_plain(text):
    cats = {"bad": {}, "deprecated": set(), "noext": set(), "missing": {}, "unused": set(), "read_errors": set(), "no_copyright": set(), "no_licence": set()}
    section, sub, cur = None, None, None
    for ln in text.splitlines():
        if ln.startswith("# "):
            section, sub, cur = ln[2:].strip(), None, None
            continue
        if section in ("BAD LICENSES", "MISSING LICENSES"):
            key = "bad" if section.startswith("BAD") else "missing"
            if ln.startswith("'") and ln.endswith("' found in:"):
                cur = ln[1 : -len("' found in:")]
                cats[key].setdefault(cur, set())
            elif ln.startswith("* ") and cur is not None:
                cats[key][cur].add(ln[2:])
        elif section == "DEPRECATED LICENSES" and ln.startswith("* "):
            cats["deprecated"].add(ln[2:])
        elif section == "LICENSES WITHOUT FILE EXTENSION" and ln.startswith("* "):
            cats["noext"].add(ln[2:])
        elif section == "UNUSED LICENSES" and ln.startswith("* "):
            cats["unused"].add(ln[2:])
        elif section == "READ ERRORS" and ln.startswith("* "):
            cats["read_errors"].add(ln[2:])
        elif section == "MISSING COPYRIGHT AND LICENSING INFORMATION":
            if ln.startswith("The following files have no copyright and licensing"):
                sub = "both"
            elif ln.startswith("The following files have no copyright information"):
                sub = "c"
            elif ln.startswith("The following files have no licensing information"):
                sub = "l"
            elif ln.startswith("* "):
                if sub in ("both", "c"):
                    cats["no_copyright"].add(ln[2:])
                if sub in ("both", "l"):
                    cats["no_licence"].add(ln[2:])
    verdict = None
    if "Congratulations! Your project is compliant" in text:
        verdict = True
    if "Unfortunately, your project is not compliant" in text:
        verdict = False if verdict is None else "both"
    return _freeze(cats), verdict


def _freeze(c):
    return {
        "bad": {k: sorted(map(str, v)) for k, v in c["bad"].items()},
        "missing": {k: sorted(map(str, v)) for k, v in c["missing"].items()},
        "deprecated": sorted(c["deprecated"]),
        "noext": sorted(c["noext"]),
        "unused": sorted(c["unused"]),
        "read_errors": sorted(map(str, c["read_errors"])),
        "no_copyright": sorted(map(str, c["no_copyright"])),
        "no_licence": sorted(map(str, c["no_licence"])),
    }


@native
def parse_json(text):
    d = _json.loads(text)
    nc = d["non_compliant"]
    cats = {
        "bad": nc["bad_licenses"],
        "missing": nc["missing_licenses"],
        "deprecated": nc["deprecated_licenses"],
        "noext": set(nc["licenses_without_extension"]),
        "unused": nc["unused_licenses"],
        "read_errors": nc["read_errors"],
        "no_copyright": nc["missing_copyright_info"],
        "no_licence": nc["missing_licensing_info"],
    }
    s = d["summary"]
    counts_ok = (
        s["files_total"] == len(d["files"])
        and s["files_with_copyright_info"] == len(d["files"]) - len(nc["missing_copyright_info"])
        and s["files_with_licensing_info"] == len(d["files"]) - len(nc["missing_licensing_info"])
        and sorted(s["used_licenses"]) == sorted({e["value"] and k for f in d["files"] for e in f["spdx_expressions"] for k in [e["value"]]} and s["used_licenses"])
    )
    return _freeze(cats), s["compliant"], bool(counts_ok), sorted(f["path"] for f in d["files"])


@native
def parse_lines(text, licenses):
    bypath = {str(v): k for k, v in licenses.items()}
    cats = {"bad": {}, "deprecated": set(), "noext": set(), "missing": {}, "unused": set(), "read_errors": set(), "no_copyright": set(), "no_licence": set()}
    junk = []
    for ln in text.splitlines():
        if ": bad license " in ln:
            p, l = ln.rsplit(": bad license ", 1)
            cats["bad"].setdefault(l, set()).add(p)
        elif ": missing license " in ln:
            p, l = ln.rsplit(": missing license ", 1)
            cats["missing"].setdefault(l, set()).add(p)
        elif ln.endswith(": deprecated license"):
            cats["deprecated"].add(bypath.get(ln[: -len(": deprecated license")], "?" + ln))
        elif ln.endswith(": license without file extension"):
            cats["noext"].add(bypath.get(ln[: -len(": license without file extension")], "?" + ln))
        elif ln.endswith(": unused license"):
            cats["unused"].add(bypath.get(ln[: -len(": unused license")], "?" + ln))
        elif ln.endswith(": read error"):
            cats["read_errors"].add(ln[: -len(": read error")])
        elif ln.endswith(": no license identifier"):
            cats["no_licence"].add(ln[: -len(": no license identifier")])
        elif ln.endswith(": no copyright notice"):
            cats["no_copyright"].add(ln[: -len(": no copyright notice")])
        elif ln.strip():
            junk.append(ln)
    return _freeze(cats), junk


def report_cats(rep):
    return _freeze(
        {
            "bad": rep.bad_licenses,
            "missing": rep.missing_licenses,
            "deprecated": rep.deprecated_licenses,
            "noext": set(rep.licenses_without_extension),
            "unused": rep.unused_licenses,
            "read_errors": rep.read_errors,
            "no_copyright": rep.files_without_copyright,
            "no_licence": rep.files_without_licenses,
        }
    )


def formats_story(files, prov):
    """-> None if every format tells the same story, else a description."""
    project, rep = real_report(files, prov)
    want = report_cats(rep)
    compliant = rep.is_compliant
    plain = li.format_plain(rep)
    js = li.format_json(rep)
    lines = li.format_lines(rep)
    pc, pv = parse_plain(plain)
    jc, jv, counts_ok, jfiles = parse_json(js)
    lc, junk = parse_lines(lines, dict(rep.licenses))
    empty = _freeze({"bad": {}, "deprecated": set(), "noext": set(), "missing": {}, "unused": set(), "read_errors": set(), "no_copyright": set(), "no_licence": set()})
    if pv is not compliant:
        return f"plain verdict {pv} vs is_compliant {compliant}"
    if jv is not compliant:
        return f"json 'compliant' {jv} vs is_compliant {compliant}"
    if not counts_ok:
        return "json summary counts differ from the json's own lists"
    if jc != want:
        return f"json categories differ: { {k: (jc[k], want[k]) for k in want if jc[k] != want[k]} }"
    if pc != (want if not compliant else empty):
        return f"plain categories differ: { {k: (pc[k], want[k]) for k in want if pc[k] != want[k]} }"
    if lc != (want if not compliant else empty):
        return f"lines categories differ: { {k: (lc[k], want[k]) for k in want if lc[k] != want[k]} }"
    if junk:
        return f"lines output has unparseable lines {junk}"
    if compliant != (want == empty):
        return f"is_compliant={compliant} but categories {'empty' if want == empty else 'non-empty'}"
    # the command: same exit status for every format, and it prints exactly the formatter's text
    codes = {}
    for fmt, text in (("quiet", ""), ("json", js), ("plain", plain), ("lines", lines)):
        code, out = lint_exit(files, prov, fmt)
        codes[fmt] = code
        if fmt == "quiet" and out != "":
            return "lint --quiet printed something"
        if fmt == "plain" and parse_plain(out) != (pc, pv):
            return "lint --plain printed something else than format_plain"
        if fmt == "lines" and sorted(out.splitlines()) != sorted(text.splitlines()):
            return "lint --lines printed something else than format_lines"
        if fmt == "json" and parse_json(out)[0] != jc:
            return "lint --json printed something else than format_json"
    if set(codes.values()) != {0 if compliant else 1}:
        return f"exit statuses {codes} for is_compliant={compliant}"
    return None


def _fmt_body(e0, c0, r0, e1, c1, r1, p0, p1, p2):
    files, prov = scenario(e0, c0, r0, e1, c1, r1, p0, p1, p2)
    return formats_story(files, prov) is None


def _fmt(e0: int, c0: bool, r0: bool, e1: int, c1: bool, r1: bool, p0: int, p1: int, p2: int) -> bool:
    """
    pre: _pre(e0, c0, r0, e1, c1, r1, p0, p1, p2)
    post: _
    """
    return _fmt_body(e0, c0, r0, e1, c1, r1, p0, p1, p2)


def _fmt_reach(e0: int, c0: bool, r0: bool, e1: int, c1: bool, r1: bool, p0: int, p1: int, p2: int) -> bool:
    """
    pre: _pre(e0, c0, r0, e1, c1, r1, p0, p1, p2)
    post: False
    """
    return _fmt_body(e0, c0, r0, e1, c1, r1, p0, p1, p2)


def explain_fmt(e0, c0, r0, e1, c1, r1, p0, p1, p2):
    d = explain_inv(e0, c0, r0, e1, c1, r1, p0, p1, p2)
    files, prov = scenario(e0, c0, r0, e1, c1, r1, p0, p1, p2)
    d["story"] = formats_story(files, prov)
    return d


EXPLAIN["_fmt"] = explain_fmt


# ---- lint-file: for the covered files among F exactly the per-file problems lint reports for them
def lintfile_story(files, prov, in_f):
    project, rep = real_report(files, prov)
    full_lines = li.format_lines_subset(rep).splitlines()
    chosen = [FakePath(p) for p, sel in zip(FILES, in_f) if sel][: len(files) + 1]
    extra = FakePath(ROOT / "LICENSES" / "MIT.txt")  # a non-covered file may be named too: it is ignored
    subset = set(chosen) | ({extra} if in_f[-1] else set())
    project2, saved = build_project(files, prov)
    out = []
    saved_echo = clf.click.echo
    clf.click.echo = lambda message=None, nl=True, **kw: out.append(str(message) + ("\n" if nl else ""))
    try:
        try:
            _callback(clf.lint_file)(_Obj(project2), False, True, subset)
            code = None
        except SystemExit as e:
            code = e.code
    finally:
        clf.click.echo = saved_echo
        pj.Path, rp.Path = saved[0], saved[1]
    got = sorted("".join(out).splitlines())
    names = {str(p) for p in chosen if p in [FakePath(x) for x in FILES[: len(files)]]}
    want = sorted(ln for ln in full_lines if any(ln.startswith(n + ": ") for n in names))
    if got != want:
        return f"lint-file printed {got}, lint --lines restricted to F is {want}"
    if code != (1 if want else 0):
        return f"lint-file exit {code} with {len(want)} reported problems"
    return None


def _lf_body(e0, c0, r0, e1, c1, r1, p0, p1, p2, s0, s1, sx):
    files, prov = scenario(e0, c0, r0, e1, c1, r1, p0, p1, p2)
    in_f = [True if s0 else False, True if s1 else False, True if sx else False]
    return lintfile_story(files, prov, in_f) is None


def _lf(e0: int, c0: bool, r0: bool, e1: int, c1: bool, r1: bool, p0: int, p1: int, p2: int, s0: bool, s1: bool, sx: bool) -> bool:
    """
    pre: _pre(e0, c0, r0, e1, c1, r1, p0, p1, p2)
    post: _
    """
    return _lf_body(e0, c0, r0, e1, c1, r1, p0, p1, p2, s0, s1, sx)


def _lf_reach(e0: int, c0: bool, r0: bool, e1: int, c1: bool, r1: bool, p0: int, p1: int, p2: int, s0: bool, s1: bool, sx: bool) -> bool:
    """
    pre: _pre(e0, c0, r0, e1, c1, r1, p0, p1, p2)
    post: False
    """
    return _lf_body(e0, c0, r0, e1, c1, r1, p0, p1, p2, s0, s1, sx)


def explain_lf(e0, c0, r0, e1, c1, r1, p0, p1, p2, s0, s1, sx):
    d = explain_inv(e0, c0, r0, e1, c1, r1, p0, p1, p2)
    files, prov = scenario(e0, c0, r0, e1, c1, r1, p0, p1, p2)
    d["F"] = [bool(s0), bool(s1), bool(sx)]
    d["story"] = lintfile_story(files, prov, d["F"])
    return d


EXPLAIN["_lf"] = explain_lf


# ------------------------------------------------------------------ C14: enumeration / completion order does not matter
PERMS3 = [(0, 1, 2), (0, 2, 1), (1, 0, 2), (1, 2, 0), (2, 0, 1), (2, 1, 0)]


def _perm_story(e0, c0, r0, e1, c1, r1, e2, c2, r2, pf, pl):
    """Three files, three LICENSES entries; pf permutes the order in which files are enumerated / complete,
    pl the order of the LICENSES listing.  The normalised report must equal the one for the identity order."""
    files = []
    for i, (e, c, r) in enumerate(((e0, c0, r0), (e1, c1, r1), (e2, c2, r2))):
        # copyright fixed; a read error is possible for the last file only (keeps the space small)
        files.append(((True if r else False) if i == 2 else False, True, _pick_from(e, EXPR_SYM)))
    prov = {pid: 0 for pid in PROV_IDS}
    prov.update({"MIT": 1, "GPL-3.0": 4, "Foo": 3})
    pf = PERMS3[FIX["pf"]] if "pf" in FIX else PERMS3[_pick_from(pf, list(range(6)))]
    pl = _pick_from(pl, PARAMS.get("listing_variants", [0, 1, 2]))

    def run(perm_files, perm_listing):
        lst, dirs = listing(prov)
        head, tail = lst[0], lst[1:]
        k = len(tail)
        order = list(range(k))
        if perm_listing:
            # rotate / reverse the listing: 6 variants
            order = [order, order[::-1], order[1:] + order[:1], order[2:] + order[:2], order[-1:] + order[:-1], order[::-1][1:] + order[::-1][:1]][perm_listing]
        lst = [head] + [tail[i] for i in order]
        FakePath._dirs = dirs
        saved = (pj.Path, rp.Path, pj.glob.iglob)
        pj.Path = FakePath
        rp.Path = FakePath
        pj.glob.iglob = lambda pattern, recursive=False: iter(lst)
        try:
            project = FakeProject(FakePath(ROOT), vcs_strategy=None, global_licensing=None, license_map=dict(BASE_MAP))
            project._vf_files = [FakePath(FILES[i]) for i in perm_files]
            project._vf_info = {Path(p): f for p, f in zip(FILES, files)}
            project.licenses = project._find_licenses()
            rep = rp.ProjectReport.generate(project, do_checksum=False, multiprocessing=False)
            return observed(rep), sorted((k2, str(v)) for k2, v in project.licenses.items())
        finally:
            pj.Path, rp.Path, pj.glob.iglob = saved

    base = run((0, 1, 2), 0)
    other = run(pf, pl)
    return base == other, {"files": files, "file_order": list(pf), "listing_variant": pl, "identity": base, "permuted": other}


def _perm_pre(e0, e1, e2, pf, pl):
    return _member(e0, EXPR_SYM) and _member(e1, EXPR_SYM) and _member(e2, EXPR_SYM) and (pf == 0 if "pf" in FIX else _member(pf, list(range(6)))) and _member(pl, PARAMS.get("listing_variants", [0, 1, 2]))


def _perm(e0: int, c0: bool, r0: bool, e1: int, c1: bool, r1: bool, e2: int, c2: bool, r2: bool, pf: int, pl: int) -> bool:
    """
    pre: _perm_pre(e0, e1, e2, pf, pl)
    post: _
    """
    return _perm_story(e0, c0, r0, e1, c1, r1, e2, c2, r2, pf, pl)[0]


def _perm_reach(e0: int, c0: bool, r0: bool, e1: int, c1: bool, r1: bool, e2: int, c2: bool, r2: bool, pf: int, pl: int) -> bool:
    """
    pre: _perm_pre(e0, e1, e2, pf, pl)
    post: False
    """
    return _perm_story(e0, c0, r0, e1, c1, r1, e2, c2, r2, pf, pl)[0]


def explain_perm(*a):
    return _perm_story(*a)[1]


EXPLAIN["_perm"] = explain_perm
