"""Report-aggregation harness shared by C01 (verdict = compliance), C06 (licence inventory),
C13 (formats agree) and C14 (order independence).

Real code executed: Project._find_licenses / _identifier_of_license (directory listing stubbed),
_generate_file_reports, _MultiprocessingContainer, FileReport.generate (classification loop),
ProjectReport.generate, used/unused/files_without_*, is_compliant, to_dict_lint, the four
formatters, ProjectSubsetReport.  Stubbed: project.reuse_info_of (C02/C04 own it), all_files
(C03 owns it), Path.is_file/exists/is_dir, glob.iglob.
"""
import json as _json
from pathlib import Path, PosixPath

from vf.harness.common import PARAMS, NativeLicensing, native, nativize_pathlib

import reuse.project as pj
import reuse.report as rp
import reuse.lint as li
from reuse import ReuseInfo, SourceType, _LICENSING
from reuse._licenses import EXCEPTION_MAP, LICENSE_MAP

nativize_pathlib()
rp._LICENSING = NativeLicensing(rp._LICENSING)

class _Rand:
    """Deterministic stand-in for the `random` module inside reuse.report (the random pseudo-checksum
    is irrelevant to these properties; CrossHair would make getrandbits symbolic)."""

    n = 0

    @classmethod
    def getrandbits(cls, k):
        cls.n += 1
        return 0xABCDEF0000 + cls.n


rp.random = _Rand

ROOT = Path("/proj")
# one representative per identifier class, with the real bundled SPDX records
KNOWN_IDS = ["MIT", "GPL-3.0", "GPL-2.0-or-later", "Classpath-exception-2.0"]
BASE_MAP = {k: (LICENSE_MAP.get(k) or EXCEPTION_MAP[k]) for k in KNOWN_IDS}
assert BASE_MAP["GPL-3.0"]["isDeprecatedLicenseId"] and not BASE_MAP["MIT"]["isDeprecatedLicenseId"]

# expression used by a file -> the identifiers it names (written by hand: independent of license_keys)
EXPRS = [
    (None, []),
    ("MIT", ["MIT"]),
    ("MIT+", ["MIT+"]),
    ("GPL-3.0", ["GPL-3.0"]),
    ("LicenseRef-x", ["LicenseRef-x"]),
    ("Foo", ["Foo"]),
    ("mit", ["mit"]),
    ("MIT AND Foo", ["MIT", "Foo"]),
    ("(MIT OR GPL-3.0)", ["MIT", "GPL-3.0"]),
    ("GPL-2.0-or-later WITH Classpath-exception-2.0", ["GPL-2.0-or-later", "Classpath-exception-2.0"]),
    ("LicenseRef-x+ AND (MIT)", ["LicenseRef-x+", "MIT"]),
]
PARSED = [None if e is None else _LICENSING.parse(e) for e, _ in EXPRS]
# provision forms of one identifier in LICENSES/
FORMS = ["absent", "ID.txt", "ID.md", "ID", "sub/ID.txt", "ID+.txt", "ID.txt+license"]
PROV_IDS = ["MIT", "GPL-3.0", "LicenseRef-x", "Foo", "GPL-2.0-or-later", "Classpath-exception-2.0"]
FILES = [ROOT / "src" / "a.py", ROOT / "doc" / "b c.txt", ROOT / "ü.rs"]

NFILES = int(PARAMS.get("nfiles", 1))
FIX = PARAMS.get("fix", {})  # name -> fixed value for a scenario dimension
PROV_SYM = PARAMS.get("prov_ids", ["MIT", "GPL-3.0", "LicenseRef-x"])  # identifiers whose provision is symbolic
FORMS_SYM = PARAMS.get("forms", [0, 1])  # allowed form indices for symbolic provisions
EXPR_SYM = PARAMS.get("exprs", list(range(len(EXPRS))))
CARVE = set(PARAMS.get("carve", []))
MODE = PARAMS.get("mode", "inventory")


class FakePath(PosixPath):
    """Every path 'exists'; directories are those the listing says."""

    _dirs = set()

    def is_file(self):
        return str(self) not in FakePath._dirs

    def exists(self):
        return True

    def is_dir(self):
        return str(self) in FakePath._dirs

    def resolve(self, strict=False):
        return self


def _pick_from(i, allowed):
    for v in allowed:
        if i == v:
            return v
    return allowed[0]


import re as _re

_REF = _re.compile(r"LicenseRef-[A-Za-z0-9.\-]+\Z")  # SPDX idstring; written from the SPDX spec, not copied from reuse


def is_ref(x):
    return bool(_REF.match(x))


def strip_plus(x):
    return x[:-1] if x.endswith("+") else x


def scenario(e0, c0, r0, e1, c1, r1, p0, p1, p2):
    """Decode symbolic selectors: per file the expression index, has-copyright, read-error;
    per PROV_SYM identifier its provision form."""
    files = []
    for i, (e, c, r) in enumerate(((e0, c0, r0), (e1, c1, r1))[:NFILES]):
        name = f"file{i}"
        if name in FIX:
            err, cop, ex = FIX[name]
        else:
            ex = _pick_from(e, EXPR_SYM)
            cop = FIX["cop"] if "cop" in FIX else (True if c else False)
            err = FIX["err"] if "err" in FIX else (True if r else False)
        files.append((bool(err), bool(cop), ex))
    prov = {}
    for idx, (pid, p) in enumerate(zip(PROV_SYM, (p0, p1, p2))):
        name = f"prov:{pid}"
        prov[pid] = FIX[name] if name in FIX else _pick_from(p, FORMS_SYM)
    for pid in PROV_IDS:
        prov.setdefault(pid, FIX.get(f"prov:{pid}", 0))
    return files, prov


def listing(prov):
    """The directory listing of LICENSES/** for a provision map (as glob.iglob would return it)."""
    out, dirs = [str(ROOT / "LICENSES")], {str(ROOT / "LICENSES")}
    for pid, form in prov.items():
        f = FORMS[form]
        if f == "absent":
            continue
        if f == "ID.txt":
            out.append(str(ROOT / "LICENSES" / f"{pid}.txt"))
        elif f == "ID.md":
            out.append(str(ROOT / "LICENSES" / f"{pid}.md"))
        elif f == "ID":
            out.append(str(ROOT / "LICENSES" / pid))
        elif f == "sub/ID.txt":
            dirs.add(str(ROOT / "LICENSES" / "sub"))
            if str(ROOT / "LICENSES" / "sub") not in out:
                out.append(str(ROOT / "LICENSES" / "sub"))
            out.append(str(ROOT / "LICENSES" / "sub" / f"{pid}.txt"))
        elif f == "ID+.txt":
            out.append(str(ROOT / "LICENSES" / f"{pid}+.txt"))
        elif f == "ID.txt+license":
            out.append(str(ROOT / "LICENSES" / f"{pid}.txt"))
            out.append(str(ROOT / "LICENSES" / f"{pid}.txt.license"))
    return out, dirs


class FakeProject(pj.Project):
    """Real Project with the two file-system walks replaced."""

    def all_files(self, directory=None):
        return iter(self._vf_files)

    def subset_files(self, files, directory=None):
        return iter([p for p in self._vf_files if p in set(files)])

    def reuse_info_of(self, path):
        err, cop, e = self._vf_info[Path(path)]
        if err:
            raise PermissionError(13, "denied", str(path))
        return _mk_infos(bool(cop), int(e), str(Path(path).relative_to(ROOT)))


@native
def _mk_infos(cop, e, rel):
    """Built natively: hashing boolean.py expression objects under CrossHair's symbolic hash() fails."""
    info = ReuseInfo(
        spdx_expressions={PARSED[e]} if PARSED[e] is not None else set(),
        copyright_lines={"2020 Jane Doe"} if cop else set(),
        path=rel,
        source_path=rel,
        source_type=SourceType.FILE_HEADER,
    )
    return [info] if info.contains_copyright_or_licensing() else []


def build_project(files, prov, order=None):
    lst, dirs = listing(prov)
    if order:
        lst = [lst[0]] + [lst[1:][i] for i in order if i < len(lst) - 1] + [x for j, x in enumerate(lst[1:]) if j not in order]
    FakePath._dirs = dirs
    saved = (pj.Path, rp.Path, pj.glob.iglob)
    pj.Path = FakePath
    rp.Path = FakePath
    pj.glob.iglob = lambda pattern, recursive=False: iter(lst)
    try:
        project = FakeProject(FakePath(ROOT), vcs_strategy=None, global_licensing=None, license_map=dict(BASE_MAP))
        project._vf_files = [FakePath(p) for p in FILES[: len(files)]]
        project._vf_info = {Path(p): f for p, f in zip(FILES, files)}
        project.licenses = project._find_licenses()
    finally:
        pj.glob.iglob = saved[2]
    return project, saved


def real_report(files, prov, subset=None):
    project, saved = build_project(files, prov)
    try:
        if subset is None:
            rep = rp.ProjectReport.generate(project, do_checksum=False, multiprocessing=False)
        else:
            rep = rp.ProjectSubsetReport.generate(project, subset, multiprocessing=False)
    finally:
        pj.Path, rp.Path = saved[0], saved[1]
    return project, rep


# ------------------------------------------------------------------ the statement's model
def model(files, prov):
    """Independent model of C01/C06 on the decoded scenario."""
    spdx = set(KNOWN_IDS)
    deprecated_ids = {"GPL-3.0"}
    # LICENSES/ entries: (identifier, has_extension)
    entries = []
    for pid, form in prov.items():
        f = FORMS[form]
        if f == "absent":
            continue
        if f in ("ID.txt", "ID.md", "sub/ID.txt", "ID.txt+license"):
            entries.append((pid, True, f))
        elif f == "ID":
            entries.append((pid, False, f))
        elif f == "ID+.txt":
            entries.append((pid + "+", True, f))
    provided = {e[0] for e in entries}
    used = set()
    missing, bad = {}, {}
    no_cop, no_lic, read_err = set(), set(), set()
    for path, (err, cop, e) in zip(FILES, files):
        if err:
            read_err.add(str(path))
            continue
        ids = EXPRS[e][1]
        if not cop:
            no_cop.add(str(path))
        if not ids:
            no_lic.add(str(path))
        for i in ids:
            used.add(i)
            base = strip_plus(i)
            if i not in provided and base not in provided:
                missing.setdefault(i, set()).add(str(path))
            if base not in spdx and i not in spdx and not is_ref(base):
                bad.setdefault(i, set()).add(str(path))
    unused = {i for i in provided if i not in used and i + "+" not in used}
    deprecated = {i for i in provided if i in deprecated_ids}
    noext = set()
    for i, has_ext, f in entries:
        if not has_ext and i in spdx:
            noext.add(i)
        if i not in spdx and not is_ref(i):
            bad.setdefault(i, set()).add("LICENSES")
    compliant = not (missing or bad or unused or deprecated or noext or no_cop or no_lic or read_err)
    return {
        "missing": {k: sorted(v) for k, v in missing.items()},
        "bad": sorted(bad),
        "unused": sorted(unused),
        "deprecated": sorted(deprecated),
        "noext": sorted(noext),
        "no_copyright": sorted(no_cop),
        "no_licence": sorted(no_lic),
        "read_errors": sorted(read_err),
        "used": sorted(used),
        "compliant": compliant,
    }


def observed(rep):
    return {
        "missing": {k: sorted(str(p) for p in v) for k, v in rep.missing_licenses.items()},
        "bad": sorted(rep.bad_licenses),
        "unused": sorted(rep.unused_licenses),
        "deprecated": sorted(rep.deprecated_licenses),
        "noext": sorted(rep.licenses_without_extension),
        "no_copyright": sorted(str(p) for p in rep.files_without_copyright),
        "no_licence": sorted(str(p) for p in rep.files_without_licenses),
        "read_errors": sorted(str(p) for p in rep.read_errors),
        "used": sorted(rep.used_licenses),
        "compliant": rep.is_compliant,
    }


def known_key(files, prov, exp, got):
    """Known finding: a LicenseRef- identifier that is used but not provided is (also) reported as bad."""
    extra_bad = set(got["bad"]) - set(exp["bad"])
    if extra_bad and set(exp["bad"]) <= set(got["bad"]):
        if all(strip_plus(b).startswith("LicenseRef-") and b in exp["missing"] for b in extra_bad):
            g2 = dict(got, bad=exp["bad"])
            if g2 == exp:
                return "licenseref-unprovided-reported-bad"
    return None


def _pre(e0, c0, r0, e1, c1, r1, p0, p1, p2):
    n = len(EXPRS)
    return 0 <= e0 < n and 0 <= e1 < n and 0 <= p0 < 7 and 0 <= p1 < 7 and 0 <= p2 < 7


def _inventory_body(e0, c0, r0, e1, c1, r1, p0, p1, p2):
    files, prov = scenario(e0, c0, r0, e1, c1, r1, p0, p1, p2)
    project, rep = real_report(files, prov)
    exp, got = model(files, prov), observed(rep)
    if exp == got:
        return True
    return known_key(files, prov, exp, got) in CARVE


def _inv(e0: int, c0: bool, r0: bool, e1: int, c1: bool, r1: bool, p0: int, p1: int, p2: int) -> bool:
    """
    pre: _pre(e0, c0, r0, e1, c1, r1, p0, p1, p2)
    post: _
    """
    return _inventory_body(e0, c0, r0, e1, c1, r1, p0, p1, p2)


def _inv_reach(e0: int, c0: bool, r0: bool, e1: int, c1: bool, r1: bool, p0: int, p1: int, p2: int) -> bool:
    """
    pre: _pre(e0, c0, r0, e1, c1, r1, p0, p1, p2)
    post: False
    """
    return _inventory_body(e0, c0, r0, e1, c1, r1, p0, p1, p2)


def explain_inv(e0, c0, r0, e1, c1, r1, p0, p1, p2):
    files, prov = scenario(e0, c0, r0, e1, c1, r1, p0, p1, p2)
    project, rep = real_report(files, prov)
    exp, got = model(files, prov), observed(rep)
    return {
        "files": [{"path": str(p), "read_error": f[0], "copyright": f[1], "expression": EXPRS[f[2]][0]} for p, f in zip(FILES, files)],
        "licenses_dir": [x for x in listing(prov)[0][1:]],
        "expected": exp,
        "got": got,
        "known_key": known_key(files, prov, exp, got),
    }


EXPLAIN = {"_inv": explain_inv}


# ------------------------------------------------------------------ C01: the lint command's exit status
import reuse.cli.lint as cl  # noqa: E402
import reuse.cli.lint_file as clf  # noqa: E402


class _Obj:
    def __init__(self, project):
        self.project = project
        self.no_multiprocessing = True


def _callback(cmd):
    cb = cmd.callback
    return getattr(cb, "__wrapped__", cb)


def lint_exit(files, prov, fmt="quiet"):
    """Run the real `lint` command body; -> (exit status, text written)."""
    project, saved = build_project(files, prov)
    out = []
    saved_echo = cl.click.echo
    cl.click.echo = lambda message=None, nl=True, **kw: out.append(str(message) + ("\n" if nl else ""))
    try:
        try:
            _callback(cl.lint)(_Obj(project), fmt == "quiet", fmt == "json", fmt == "plain", fmt == "lines")
            code = None
        except SystemExit as e:
            code = e.code
    finally:
        cl.click.echo = saved_echo
        pj.Path, rp.Path = saved[0], saved[1]
    return code, "".join(out)


def _lint_body(e0, c0, r0, e1, c1, r1, p0, p1, p2):
    files, prov = scenario(e0, c0, r0, e1, c1, r1, p0, p1, p2)
    code, _ = lint_exit(files, prov)
    exp = model(files, prov)
    return code == (0 if exp["compliant"] else 1)


def _lint(e0: int, c0: bool, r0: bool, e1: int, c1: bool, r1: bool, p0: int, p1: int, p2: int) -> bool:
    """
    pre: _pre(e0, c0, r0, e1, c1, r1, p0, p1, p2)
    post: _
    """
    return _lint_body(e0, c0, r0, e1, c1, r1, p0, p1, p2)


def _lint_reach(e0: int, c0: bool, r0: bool, e1: int, c1: bool, r1: bool, p0: int, p1: int, p2: int) -> bool:
    """
    pre: _pre(e0, c0, r0, e1, c1, r1, p0, p1, p2)
    post: False
    """
    return _lint_body(e0, c0, r0, e1, c1, r1, p0, p1, p2)


def explain_lint(e0, c0, r0, e1, c1, r1, p0, p1, p2):
    d = explain_inv(e0, c0, r0, e1, c1, r1, p0, p1, p2)
    files, prov = scenario(e0, c0, r0, e1, c1, r1, p0, p1, p2)
    d["exit"] = lint_exit(files, prov)[0]
    return d


EXPLAIN["_lint"] = explain_lint


def _c01_body(e0, c0, r0, e1, c1, r1, p0, p1, p2):
    files, prov = scenario(e0, c0, r0, e1, c1, r1, p0, p1, p2)
    exp = model(files, prov)
    code, _ = lint_exit(files, prov)
    if code != (0 if exp["compliant"] else 1):
        return False
    project, rep = real_report(files, prov)
    got = observed(rep)
    if exp == got:
        return True
    return known_key(files, prov, exp, got) in CARVE


def _c01(e0: int, c0: bool, r0: bool, e1: int, c1: bool, r1: bool, p0: int, p1: int, p2: int) -> bool:
    """
    pre: _pre(e0, c0, r0, e1, c1, r1, p0, p1, p2)
    post: _
    """
    return _c01_body(e0, c0, r0, e1, c1, r1, p0, p1, p2)


def _c01_reach(e0: int, c0: bool, r0: bool, e1: int, c1: bool, r1: bool, p0: int, p1: int, p2: int) -> bool:
    """
    pre: _pre(e0, c0, r0, e1, c1, r1, p0, p1, p2)
    post: False
    """
    return _c01_body(e0, c0, r0, e1, c1, r1, p0, p1, p2)


EXPLAIN["_c01"] = explain_lint
