"""Shared by all harness modules: real-code import, parameters."""
import json
import os
import sys

REPO = os.environ.get("VERIF_REPO", "/repo")
sys.path.insert(0, os.path.join(REPO, "src"))
import logging  # noqa: E402

logging.disable(logging.CRITICAL)
PARAMS = json.loads(os.environ.get("VF_PARAMS", "{}") or "{}")


def native(fn):
    """Run *fn* at native speed (outside CrossHair's tracer) on realised arguments.
    Sound only where the arguments are already concrete on the current path (they are
    realised first, which forks/pins them if they are not)."""
    import functools

    try:
        from crosshair.core import deep_realize
        from crosshair.tracers import NoTracing, is_tracing
    except Exception:  # pragma: no cover
        return fn

    @functools.wraps(fn)
    def wrapper(*a, **k):
        if not is_tracing():
            return fn(*a, **k)
        a2 = deep_realize(a)
        k2 = deep_realize(k)
        with NoTracing():
            return fn(*a2, **k2)

    return wrapper


class NativeLicensing:
    """Drop-in for reuse._LICENSING whose parse() runs natively on a realised string."""

    def __init__(self, real):
        self._real = real
        self.parse = native(real.parse)

    def __getattr__(self, name):
        return getattr(self._real, name)
