"""Shared by all harness modules: real-code import, parameters."""
import json
import os
import sys

REPO = os.environ.get("VERIF_REPO", "/repo")
sys.path.insert(0, os.path.join(REPO, "src"))
import logging  # noqa: E402

logging.disable(logging.CRITICAL)
PARAMS = json.loads(os.environ.get("VF_PARAMS", "{}") or "{}")


def native(fn):
    """Run *fn* at native speed (outside CrossHair's tracer) on realised arguments.
    Sound only where the arguments are already concrete on the current path (they are
    realised first, which forks/pins them if they are not)."""
    import functools

    try:
        from crosshair.core import deep_realize
        from crosshair.tracers import NoTracing, is_tracing
    except Exception:  # pragma: no cover
        return fn

    import pathlib

    plain_types = (str, int, bool, type(None), float, bytes, type)

    def plain(x, depth=0):
        t = type(x)
        if t in plain_types or issubclass(t, pathlib.PurePath):
            return True
        if depth < 3 and t in (tuple, list):
            return all(plain(y, depth + 1) for y in x)
        return False

    @functools.wraps(fn)
    def wrapper(*a, **k):
        if not is_tracing():
            return fn(*a, **k)
        with NoTracing():
            ok = all(plain(x) for x in a) and all(plain(x) for x in k.values())
        if ok:
            with NoTracing():
                return fn(*a, **k)
        with NoTracing():
            flags = [plain(x) for x in a]
        a2 = tuple(x if ok_ else deep_realize(x) for x, ok_ in zip(a, flags))
        k2 = {kk: deep_realize(v) for kk, v in k.items()}
        with NoTracing():
            return fn(*a2, **k2)

    return wrapper


class NativeLicensing:
    """Drop-in for reuse._LICENSING whose parse() runs natively on a realised string."""

    def __init__(self, real):
        self._real = real
        self.parse = native(real.parse)

    def __getattr__(self, name):
        return getattr(self._real, name)


_NATIVIZED = set()


def nativize(cls, names):
    """Register CrossHair patches so that the named methods of *cls* run natively on
    realised arguments (pure functions of concrete values: pathlib and the like)."""
    try:
        from crosshair.core import register_patch
    except Exception:  # pragma: no cover
        return
    for n in names:
        f = cls.__dict__.get(n)
        if f is None:
            continue
        if isinstance(f, (staticmethod, classmethod)):
            f = f.__func__
        if isinstance(f, property):
            f = f.fget
        if (cls, n) in _NATIVIZED:
            continue
        _NATIVIZED.add((cls, n))
        try:
            register_patch(f, native(f))
        except BaseException:  # already registered (CrossHairInternal is not an Exception)
            pass


def nativize_pathlib():
    import pathlib

    names = [
        "relative_to", "is_relative_to", "as_posix", "__str__", "__eq__", "__hash__", "__truediv__", "__rtruediv__",
        "__fspath__", "with_segments", "joinpath", "__lt__", "__le__", "__gt__", "__ge__", "__repr__", "match", "with_name", "with_suffix",
        "__init__", "_load_parts", "_parse_path", "_from_parsed_parts", "_format_parsed_parts", "_str_normcase", "drive", "root", "_tail",
        "parts", "parent", "parents", "name", "suffix", "stem", "anchor", "_parts_normcase", "__reduce__", "is_absolute",
    ]
    nativize(pathlib.PurePath, names)


def disable_callee_contract_enforcement():
    """CrossHair looks up (and would enforce) PEP316 contracts of *every function called* from traced
    code and replaces every constructor call by a Python-level __new__/__init__ pair.  No callee in
    these harnesses carries a contract, so this is pure overhead (measured 4-10x).  Turn it off for
    all callers; the top-level harness function's own pre/post are unaffected."""
    if os.environ.get("VF_KEEP_ENFORCEMENT"):
        return
    try:
        from crosshair import enforce
    except Exception:  # pragma: no cover
        return

    def wants_codeobj(self, codeobj):
        return codeobj.co_name == "_crosshair_with_enforcement"

    enforce.EnforcedConditions.wants_codeobj = wants_codeobj


disable_callee_contract_enforcement()
