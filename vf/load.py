"""Import the *real* reuse modules from /repo's current working tree."""
import os
import sys

REPO = os.environ.get("VERIF_REPO", "/repo")
SRC = os.path.join(REPO, "src")


def ensure():
    if SRC not in sys.path:
        sys.path.insert(0, SRC)
    # Silence reuse's logging (errors are expected on malformed inputs).
    import logging

    logging.disable(logging.CRITICAL)
    import reuse  # noqa

    here = os.path.realpath(os.path.dirname(reuse.__file__))
    want = os.path.realpath(os.path.join(SRC, "reuse"))
    if here != want:
        raise RuntimeError(f"reuse imported from {here}, expected {want}")
    return reuse


def source_digest(files):
    """sha256 over the listed repo files (recorded in evidence so a reader can
    see which tree the encoding was regenerated from)."""
    import hashlib

    h = hashlib.sha256()
    for f in sorted(files):
        p = os.path.join(REPO, f)
        try:
            with open(p, "rb") as fp:
                h.update(f.encode() + b"\0" + fp.read())
        except OSError:
            h.update(f.encode() + b"\0<missing>")
    return h.hexdigest()[:16]
