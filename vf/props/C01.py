"""C01 — lint verdict equals compliance with the REUSE specification.

XH over the real `lint` command body (exit status) and the real report aggregation
(ProjectReport.generate, FileReport.generate, is_compliant and the eight issue collections) on
symbolic per-file facts and LICENSES/ contents, judged by the statement's clauses (a)-(d)."""
from .. import xh
from . import C06

FILES = ["src/reuse/report.py", "src/reuse/project.py", "src/reuse/cli/lint.py", "src/reuse/lint.py"]


def replay(w):
    got = C06._tree_lint(w)
    if got is None:
        return True
    if "exit" in w and w["exit"] is not None:
        if (0 if got["compliant"] else 1) != (0 if w["expected"]["compliant"] else 1):
            return True
    return got != w["expected"]


def run(ctx):
    tier = ctx.tier
    carve = sorted(ctx.known)
    tmo = 400 if tier == "quick" else 1500
    exprs = [0, 1, 3, 4, 5, 11]  # none, MIT, GPL-3.0 (deprecated), LicenseRef-x, Foo (unknown), LicenseRef-a_b (malformed)
    prov = ["MIT", "GPL-3.0", "Foo"]
    conds = []
    # one file: every fact x provision incl. the extension-less form and a LicenseRef
    for e in exprs:
        conds.append(
            xh.Cond(
                f"one file expr#{e} x copyright x read-error x LICENSES{{MIT,GPL-3.0,Foo}} in {{absent,ID.txt,ID}}",
                "REP.py", "_c01",
                {"nfiles": 1, "exprs": [e], "prov_ids": prov, "forms": [0, 1, 3], "carve": carve},
                timeout=tmo, twin="_c01_reach",
            )
        )
        conds.append(
            xh.Cond(
                f"one file expr#{e} x copyright x read-error x LICENSES{{MIT,LicenseRef-x,LicenseRef-a_b}} in {{absent,ID.txt}}",
                "REP.py", "_c01",
                {"nfiles": 1, "exprs": [e], "prov_ids": ["MIT", "LicenseRef-x", "LicenseRef-a_b"], "forms": [0, 1], "carve": carve},
                timeout=tmo, twin="_c01_reach",
            )
        )
    # two files in (possibly) different categories at once
    forms2 = [0, 1] if tier == "quick" else [0, 1, 3]
    for e in exprs:
        for cop in (False, True):
            for err in (False, True):
                if err and not cop:
                    continue  # an unreadable file's other facts are irrelevant
                conds.append(
                    xh.Cond(
                        f"two files: first=(expr#{e},copyright={cop},read_error={err}) x second free x LICENSES in {forms2}",
                        "REP.py", "_c01",
                        {"nfiles": 2, "exprs": exprs, "prov_ids": prov, "forms": forms2, "fix": {"file0": [err, cop, e]}, "carve": carve},
                        timeout=tmo, twin="_c01_reach",
                    )
                )
    ctx.functions_encoded = [
        "reuse.cli.lint.lint (command body: report generation, exit expression)",
        "reuse.report.ProjectReport.generate / is_compliant / used_licenses / unused_licenses / files_without_licenses / files_without_copyright",
        "reuse.report.FileReport.generate, _MultiprocessingContainer.__call__, _generate_file_reports",
        "reuse.project.Project._find_licenses",
    ]
    ctx.bounds = {
        "files": "1 or 2 covered files; per file: licence expression in {none, MIT, GPL-3.0, LicenseRef-x, Foo}, copyright present?, read error?",
        "LICENSES": "three identifiers at a time from {MIT, GPL-3.0 (deprecated), Foo (unknown), LicenseRef-x, GPL-2.0-or-later}, each in {absent, ID.txt, ID without extension}" + (" (two files: {absent, ID.txt})" if tier == "quick" else ""),
    }
    ctx.stubs = ["project.reuse_info_of / all_files (owned by C02, C04, C03)", "directory listing of LICENSES/", "click.echo captured", "random pseudo-checksum deterministic"]
    ctx.outside = ["trees with more than 2 covered files (the aggregation is a fold over independent per-file results: argued, not checked)", "the real SPDX list beyond the representatives", "file discovery, header reading and precedence (C03, C02, C04)"]
    ctx.assumptions = ["clauses (a)-(d) as coded in vf/harness/REP.py::model"]

    def confirm(c, ex):
        w = {"files": ex["files"], "licenses_dir": ex["licenses_dir"], "expected": ex["expected"], "exit": ex.get("exit")}
        exit_wrong = ex.get("exit") != (0 if ex["expected"]["compliant"] else 1)
        if not replay(w) and not exit_wrong:
            return None
        diff = {k: (ex["expected"][k], ex["got"][k]) for k in ex["expected"] if ex["expected"][k] != ex["got"][k]}
        if exit_wrong:
            key = "exit:" + "|".join(str(f["expression"]) for f in ex["files"]) + ":" + "|".join(x.split("LICENSES/")[-1] for x in ex["licenses_dir"])
            return key, f"lint exits {ex.get('exit')} but the project is {'compliant' if ex['expected']['compliant'] else 'not compliant'}: files={ex['files']} LICENSES={ex['licenses_dir']}", w
        key = ex.get("known_key") or "report:" + ",".join(sorted(diff)) + ":" + "|".join(str(f["expression"]) for f in ex["files"]) + ":" + "|".join(x.split("LICENSES/")[-1] for x in ex["licenses_dir"])
        return key, f"files={ex['files']} LICENSES={ex['licenses_dir']}: differs in {diff}", w

    xh.settle(ctx, conds, confirm)
    return {"level": "model_checking", "exhaustive": True, "trusted_base": ["CrossHair 0.0.110 + z3", "model of clauses (a)-(d)"]}
