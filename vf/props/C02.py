"""C02 — licence, copyright and contributor tags are read exactly, in any comment syntax.

XH + PYRE over the real find_spdx_tag and the real tag / copyright patterns (incl. _END_PATTERN):
for every distinct decoration the comment styles can put around a tag line (single-line prefix,
inline multi-line, block middle line, ASCII frame, leading tab / trailing blanks) a value with free
characters must come back exactly.  Plus the 4 KiB window / snippet rule of reuse_info_of_file."""
from .. import pyre_validate, xh

FILES = ["src/reuse/extract.py", "src/reuse/comment.py", "src/reuse/_util.py"]
CARRIERS = {"lic": "GPL-3.0-or-later", "con": "Jane Doe", "cop": "2020 Jane Doe <jane@example.org>"}


def decorations():
    """Distinct (left, right, description) decorations, harvested from the real style classes."""
    from reuse import comment

    seen, out = set(), []

    def add(left, right, what):
        if (left, right) not in seen:
            seen.add((left, right))
            out.append((left, right, what))

    for cls in comment._all_style_classes():
        n = cls.__name__.replace("CommentStyle", "")
        if cls.SINGLE_LINE:
            add(cls.SINGLE_LINE + cls.INDENT_AFTER_SINGLE, "", f"{n}: single-line")
        s, m, e = cls.MULTI_LINE
        if s and e:
            add(s + " ", " " + e, f"{n}: inline multi-line")
            add(cls.INDENT_BEFORE_MIDDLE + m + cls.INDENT_AFTER_MIDDLE, "", f"{n}: block middle line")
            add(s + " ", "", f"{n}: block first line")
            add(cls.INDENT_BEFORE_MIDDLE + m + cls.INDENT_AFTER_MIDDLE, cls.INDENT_BEFORE_END + e, f"{n}: block last line")
    add("|* ", " *|", "ASCII-art frame")
    add("\t# ", "  ", "leading tab, trailing blanks")
    add("", "", "bare tag")
    add('<tag value="', '" />', "XML attribute")
    add("[", "] ::", "reST field")
    return out


def read_real(kind, line):
    from reuse import extract as ex

    if kind in ("lic", "con"):
        pat = ex._LICENSE_IDENTIFIER_PATTERN if kind == "lic" else ex._CONTRIBUTOR_PATTERN
        out = list(ex.find_spdx_tag(line, pat))
        if any(p.search(line) for p in ex._COPYRIGHT_PATTERNS):
            out.append("(also read as copyright notice)")
        return out
    out = []
    for ln in line.splitlines():
        for p in ex._COPYRIGHT_PATTERNS:
            m = p.search(ln)
            if m is not None:
                out.append(m.groupdict()["copyright"].strip())
                break
    return out


def replay(w):
    if "line" in w:
        return read_real(w["kind"], w["line"]) != w["expected"]
    if "offset" in w:
        import os
        import tempfile

        from reuse.extract import reuse_info_of_file

        d = tempfile.mkdtemp(prefix="vf-c02-")
        try:
            k = w["offset"]
            body = ("# " + "x" * 61 + "\n") * (k // 64) + ("#" * (k % 64 - 1) + "\n" if k % 64 else "") + "# SPDX-License-Identifier: GPL-3.0-or-later\n# tail\n"
            p = os.path.join(d, "f.py")
            with open(p, "w") as fp:
                fp.write(body)
            got = sorted(str(e) for e in reuse_info_of_file(p, p, d).spdx_expressions)
            return got not in ([], ["GPL-3.0-or-later"])
        finally:
            import shutil

            shutil.rmtree(d, ignore_errors=True)
    return True


def run(ctx):
    tier = ctx.tier
    n, bad = pyre_validate.validate(2000 if tier == "quick" else 8000, ctx.seed)
    ctx.extra["pyre_validation_comparisons"] = n
    if bad:
        ctx.harness_error(f"PYRE disagrees with re: {bad[:3]}")
        return {"level": "model_checking"}
    carve = sorted(ctx.known)
    decos = decorations()
    ctx.extra["distinct_decorations"] = len(decos)
    conds = []
    tmo = 300 if tier == "quick" else 1800
    for left, right, what in decos:
        for kind in ("lic", "con", "cop"):
            holes = ["end"] if tier == "quick" else ["start", "mid", "end"]
            if tier == "quick" and kind == "con" and ("single-line" in what or "inline" in what or "frame" in what):
                holes = ["end", "mid"]
            if tier == "quick" and kind == "cop" and "block" in what:
                continue  # quick: copyright on single-line / inline / frame decorations only
            for hole in holes:
                conds.append(
                    xh.Cond(f"{kind} tag, {what} ({left!r}…{right!r}), one free char at {hole}", "C02.py", "_tag", {"kind": kind, "left": left, "right": right, "carrier": CARRIERS[kind], "hole": hole, "nfree": 1, "carve": carve}, timeout=tmo, twin="_tag_reach")
                )
    # two free characters on a slice
    two = [d for d in decos if d[2] in ("Python: single-line", "C: inline multi-line", "Html: inline multi-line", "ASCII-art frame", "Lisp: single-line", "Jinja: inline multi-line")] if tier == "quick" else decos
    for left, right, what in two:
        for kind in (("con",) if what not in ("C: inline multi-line", "ASCII-art frame") else ("lic", "con")) if tier == "quick" else ("lic", "con", "cop"):
            conds.append(xh.Cond(f"{kind} tag, {what} ({left!r}…{right!r}), two free chars at end", "C02.py", "_tag", {"kind": kind, "left": left, "right": right, "carrier": CARRIERS[kind], "hole": "end", "nfree": 2, "carve": carve}, timeout=tmo * 2, twin="_tag_reach"))
    # other copyright tag spellings
    for tag in ("Copyright", "Copyright (C)", "©", "SPDX-SnippetCopyrightText:", "SPDX-FileCopyrightText: ©"):
        conds.append(xh.Cond(f"cop tag {tag!r}, Python: single-line, one free char at end", "C02.py", "_tag", {"kind": "cop", "cop_tag": tag, "left": "# ", "right": "", "carrier": CARRIERS["cop"], "hole": "end", "nfree": 1, "carve": carve}, timeout=tmo, twin="_tag_reach"))
    conds.append(xh.Cond("4 KiB window and snippet marker", "C02.py", "_win", {"carve": carve}, timeout=tmo, twin="_win_reach"))
    for base in (4096, 8192, 16384, 32768, 65536, 131072, 1048576) if tier == "thorough" else (8192, 65536):
        conds.append(xh.Cond(f"snippet marker found at any offset around byte {base} (a plausible read-block boundary)", "C02.py", "_marker", {"marker_base": base}, timeout=tmo, twin="_marker_reach"))
    conds.append(xh.Cond("copyright notices on lines separated by CR / VT / FF / FS / GS / RS / NEL / LS / PS are read one per line", "C02.py", "_sep", {}, timeout=tmo, twin="_sep_reach"))
    conds.append(xh.Cond("file line endings LF / CRLF / lone CR x snippet marker before / after / absent x final line ending: the same tags are read", "C02.py", "_eol", {}, timeout=tmo, twin="_eol_reach"))
    conds.append(xh.Cond("reading is a function of the text alone: identifiers that differ only in case or spacing, read one after the other in either order", "C02.py", "_hist", {}, timeout=tmo, twin="_hist_reach"))
    ctx.functions_encoded = [
        "reuse.extract.find_spdx_tag",
        "reuse.extract._LICENSE_IDENTIFIER_PATTERN / _CONTRIBUTOR_PATTERN / _COPYRIGHT_PATTERNS / _END_PATTERN (real compiled patterns; PYRE on symbolic subjects)",
        "reuse.extract.reuse_info_of_file, decoded_text_from_binary, _contains_snippet (in-memory stream)",
    ]
    ctx.bounds = {
        "decorations": f"{len(decos)} distinct (left, right) decorations harvested from the {len(decos)}-style table: single-line prefix, inline multi-line, block first/middle/last line of every style, ASCII frame, tab/trailing blanks, XML attribute, reST field",
        "value": "concrete carriers (licence expression, holder, year + holder with e-mail) with ONE free character (any code point except line breaks) at the end" + (", start and middle" if tier != "quick" else " (contributor also middle)") + "; TWO free characters at the end on " + ("every decoration" if tier != "quick" else "6 decorations"),
        "window": "tag line placed at every offset from 4096-60 to 4096+7, with/without a snippet marker before or after",
    }
    ctx.stubs = ["module-level pattern objects wrapped in PyRe", "Path(...).open replaced by an in-memory stream; relative_from_root stubbed", "licence parsing native on concrete strings"]
    ctx.outside = ["values with more than two free characters", "bytes that are not valid UTF-8 (C codec)", "licence/contributor tags in CR-only TEXT handed to extract_reuse_info directly (files are folded by decoded_text_from_binary, which is covered); (the MULTILINE patterns do not end a line at a lone CR; copyright notices are checked for every separator)"]
    ctx.assumptions = [f"PYRE == re on {n} comparisons this run", "value grammar: one line (no str.splitlines boundary), stripped"]

    def confirm(c, ex):
        if c.func == "_tag":
            w = {"kind": ex["kind"], "line": ex["line"], "expected": ex["expected"]}
            if not replay(w):
                return None
            key = ex.get("known_key") or f"tag:{ex['kind']}:{ex['line']!r}"
            return key, f"line {ex['line']!r} is read as {ex['got']} instead of {ex['expected']}", w
        if c.func == "_eol":
            return f"line-ending:{ex['line_ending']}:{ex['snippet_marker']}", f"file with line ending {ex['line_ending']} (snippet marker {ex['snippet_marker']}, after={ex['marker_after']}): read {ex['got']}, expected {ex['expected']}", {"harness": "C02.py::_eol", "explain": ex}
        if c.func == "_hist":
            return f"read-history:{ex['identifiers_in_order']}", f"identifiers {ex['identifiers_in_order']} read one after the other give {ex['read']}; each alone gives {ex['each_read_alone']}", {"harness": "C02.py::_hist", "explain": ex}
        if c.func == "_sep":
            return f"separator:{ex['separator']}", f"text {ex['text']!r}: copyright notices read as {ex['got']}, expected {ex.get('expected')}", {"harness": "C02.py::_sep", "explain": ex}
        if c.func == "_marker":
            return f"marker:{ex['marker_at'] % 4096}", f"snippet marker at byte {ex['marker_at']} of {ex['size']}: tag after it read as {ex['got']}", {"harness": "C02.py::_marker", "explain": ex}
        straddle = ex["offset_of_tag"] < 4096 < ex["tag_end"]
        return ("tag-straddles-4KiB" if straddle else f"window:{ex['offset_of_tag']}:{ex['snippet']}"), f"tag at bytes {ex['offset_of_tag']}..{ex['tag_end']} snippet={ex['snippet']}: got {ex['got']}, acceptable {ex['acceptable']}", {"harness": "C02.py::_win", "explain": ex}

    xh.settle(ctx, conds, confirm)
    return {"level": "model_checking", "exhaustive": True, "trusted_base": ["CrossHair 0.0.110 + z3", "vf/pyre.py (validated against re this run)"]}
