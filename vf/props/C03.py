"""C03 — exactly the covered files are examined (partial: Git's own answer is outside).

RZ3: the real ignore patterns (union, .match semantics) against the statement's name language,
names unbounded.  XH: the real is_path_ignored decision and the real iter_files walk over a
file-system/VCS model with symbolic kinds and answers."""
import time

import re
import z3

from .. import re2z3 as R
from .. import xh

FILES = ["src/reuse/covered_files.py", "src/reuse/project.py", "src/reuse/cli/annotate.py"]


def L(s):
    return R.lit(s)


NAMECH = R._ranges_to_re(R._negate_ranges([(0, 0), (47, 47)]))
NAME = z3.Plus(NAMECH)
ANY = z3.Star(NAMECH)
NOLF = z3.Star(R._ranges_to_re(R._negate_ranges([(10, 10)])))
D_NOLF = R.inter(NAME, NOLF)
D_LF = R.inter(NAME, z3.Concat(R.FULL, R.LF, R.FULL))

REF_FILE = R.union(
    [
        z3.Concat(R.union([L("LICENSE"), L("LICENCE"), L("COPYING")]), z3.Option(z3.Concat(R.union([L("-"), L(".")]), ANY))),
        z3.Concat(ANY, L(".license")),
        z3.Concat(ANY, L(".spdx")),
        z3.Concat(ANY, L(".spdx."), R.union([L("rdf"), L("json"), L("xml"), L("yml"), L("yaml")])),
        L("REUSE.toml"),
        L(".git"),  # gitlink file in submodules: VCS metadata
        L(".hgtags"),  # VCS metadata
    ]
)
REF_DIR = R.union([L(".git"), L(".hg"), L(".sl"), L("LICENSES"), L(".reuse")])
REF_MESON = L("subprojects")
# recorded language of the licence-text workaround (known finding): names the tool also skips
_ANYCH = R.ALLCHAR
WORKAROUND = R.union(
    [
        z3.Concat(L("CAL-1"), _ANYCH, L("0"), z3.Option(L("-Combined-Work-Exception")), z3.Option(z3.Concat(L("."), z3.Plus(_ANYCH)))),
        z3.Concat(L("SHL-2"), _ANYCH, L("1"), z3.Option(z3.Concat(L("."), z3.Plus(_ANYCH)))),
    ]
)


def replay(w):
    import reuse.covered_files as cf

    if "name" in w and "list" in w:
        pats = getattr(cf, w["list"])
        got = any(p.match(w["name"]) for p in pats)
        return got != w["expected"]
    return True


def pattern_languages(ctx):
    import reuse.covered_files as cf

    q = R.Q()
    for lst, ref, label in (("_IGNORE_FILE_PATTERNS", REF_FILE, "file names"), ("_IGNORE_DIR_PATTERNS", REF_DIR, "directory names"), ("_IGNORE_MESON_PARENT_DIR_PATTERNS", REF_MESON, "Meson parent")):
        pats = getattr(cf, lst)
        try:
            impl = R.union([R.language(p, "match") for p in pats])
            impl_nolf = R.union([R.language(re.compile(p.pattern, p.flags | re.DOTALL), "match", lf_free=True) for p in pats])
        except R.Unsupported as e:
            ctx.harness_error(f"{label}: a pattern is outside what vf/re2z3.py converts: {e}")
            ctx.ob(f"{label}: language", "RZ3", "inconclusive", detail=str(e))
            continue
        for dom_name, dom in (("LF-free", D_NOLF), ("containing LF", D_LF)):
            t0, n0 = time.time(), q.n
            verdict, detail = "holds", None
            for direction, a, b, expected in (("missed-exclusion", ref, impl, True), ("skipped-covered-name", impl, ref, False)):
                rest = a
                # first: anything outside the recorded workaround language?
                if direction == "skipped-covered-name" and lst == "_IGNORE_FILE_PATTERNS":
                    rest = R.inter(a, R.comp(WORKAROUND))
                r, w = q.diff(rest, b, dom)
                if r not in ("sat", "unsat"):
                    verdict, detail = "inconclusive", r
                    continue
                if r == "sat":
                    wit = {"list": lst, "name": w, "expected": expected}
                    if not replay(wit):
                        ctx.harness_error(f"{label}: counterexample {w!r} does not replay")
                        verdict = "inconclusive"
                        continue
                    key = None
                    if dom_name == "containing LF":
                        r2, _ = q.diff(a, impl_nolf, dom) if direction == "missed-exclusion" else q.diff(R.inter(impl_nolf, R.comp(WORKAROUND)), b, dom)
                        if r2 == "unsat":
                            key = "LF"
                    if key is None:
                        key = f"{lst}:{direction}:{w!r}"
                    what = f"{label}: name {w!r} is " + ("excluded by the statement but not by the patterns" if expected else "skipped by the patterns although the statement covers it")
                    st = ctx.violation(key, what, wit)
                    verdict = "violated" if st == "violated" else ("known" if verdict == "holds" else verdict)
                    detail = what
                # second: is the workaround language still (only) what the finding records?
                if direction == "skipped-covered-name" and lst == "_IGNORE_FILE_PATTERNS":
                    r, w = q.diff(R.inter(a, WORKAROUND), b, dom)
                    if r == "sat":
                        wit = {"list": lst, "name": w, "expected": False}
                        if replay(wit):
                            st = ctx.violation("license-text-workaround", f"file name {w!r} is skipped everywhere (CAL-1.0 / SHL-2.1 workaround)", wit)
                            verdict = "violated" if st == "violated" else ("known" if verdict == "holds" else verdict)
            ctx.ob(f"{label} [{dom_name}]: L(patterns) == statement", "RZ3", verdict, secs=time.time() - t0, detail=detail, queries=q.n - n0,
                   sample={"patterns": [p.pattern for p in pats], "domain": dom_name, "verdict": verdict})
    ctx.queries += q.n
    return q


def run(ctx):
    tier = ctx.tier
    carve = sorted(k for k in ctx.known if k != "LF")
    q = pattern_languages(ctx)
    conds = []
    tmo = 300 if tier == "quick" else 900
    nnames = 27
    for n in range(nnames):
        conds.append(xh.Cond(f"is_path_ignored name#{n}", "C03.py", "_ign", {"names": [n], "carve": carve}, timeout=tmo, twin="_ign_reach"))
    for f1 in (False, True):
        for f2 in (False, True):
            for f3 in (False, True):
                conds.append(xh.Cond(f"iter_files flags=(submodules={f1},meson={f2},tomls={f3})", "C03.py", "_walk", {"flags": [f1, f2, f3], "carve": carve, "filenames": [0, 1, 9, 11, 16] if tier == "quick" else [0, 1, 3, 5, 9, 11, 12, 14, 16, 25]}, timeout=tmo, twin="_walk_reach"))
    for f1 in (False, True):
        for f2 in (False, True):
            if tier == "quick" and f1 != f2:
                continue
            for req, what in ((0, "root"), (1, "D"), (2, "D/pkg"), (4, "a file")):
                conds.append(xh.Cond(f"annotate --recursive {what} flags=(submodules={f1},meson={f2})", "C03.py", "_rec", {"flags": [f1, f2, False], "requests": [req], "filenames": [0, 1, 9] if tier == "quick" else [0, 1, 9, 11, 16], "carve": carve}, timeout=tmo, twin="_rec_reach"))
    conds.append(xh.Cond("VCSStrategyGit: the NUL-separated answers of git (ignored paths, submodule paths) are read back exactly, for names with blanks, non-ASCII, line feed, leading dash, directories", "C03.py", "_git", {}, timeout=tmo, twin="_git_reach"))
    conds.append(xh.Cond("Project.from_directory: the nested REUSE.toml files that take part are those of the directories that are walked (include options, VCS answers)", "C03.py", "_tomls", {}, timeout=tmo, twin="_tomls_reach"))
    conds.append(xh.Cond("lint-file (Project.subset_files) restricted to F examines what lint (Project.all_files) examines, intersected with F, under every include option and VCS answer", "C03.py", "_subsetflags", {}, timeout=tmo, twin="_subsetflags_reach"))
    conds.append(xh.Cond("lint-file command: the files named are the ones examined, from any working directory", "C03.py", "_lintfile", {}, timeout=tmo, twin="_lintfile_reach"))
    conds.append(xh.Cond("lint-file: a named file is examined however its path and the root are spelled (relative, '..', absolute)", "C03.py", "_subset", {}, timeout=tmo, twin="_subset_reach"))
    ctx.functions_encoded = [
        "reuse.covered_files.iter_files / is_path_ignored with subset_files over a path algebra (resolve() collapses '..', absolute() does not)",
        "reuse.project.Project.from_directory / find_global_licensing / _global_licensing_from_found, NestedReuseTOML.find_reuse_tomls (discovery walk; ReuseTOML.from_file stubbed)",
        "reuse.vcs.VCSStrategyGit._find_all_ignored_files / _find_submodules / is_ignored / is_submodule (execute_command replaced by arbitrary listed answers)",
        "reuse.cli.annotate.all_paths + Project.all_files (recursive expansion over the same model)",
        "reuse.covered_files._IGNORE_FILE_PATTERNS / _IGNORE_DIR_PATTERNS / _IGNORE_MESON_PARENT_DIR_PATTERNS (compiled patterns -> z3)",
        "reuse.covered_files.is_path_ignored (symbolic kind, flags, VCS answers, subset)",
        "reuse.covered_files.iter_files (os.walk replaced by a pruning-aware model)",
    ]
    ctx.bounds = {
        "names (RZ3)": "unbounded: every name without '/' and NUL, any length; LF-free and LF-containing separately",
        "is_path_ignored": "27 names on both sides of each rule x 6 kinds (file, empty, dir, symlink to file/dir, stat error) x parent in {src, subprojects} x VCS {none, ignored?, submodule?} x 3 include flags x subset {none, in, out}",
        "lint-file spelling": "5 spellings of the root x 6 spellings of the named file (+ a second named file with '..'), working directory = project root, no symlinks",
        "REUSE.toml discovery": "root/{REUSE.toml, top.py, D/pkg/{REUSE.toml, h.py}} with D from the same list; pkg ignored? submodule?; VCS or none; both include options",
        "annotate -r": "the same tree; the requested path is the root, D, D/pkg, top.py or G",
        "iter_files": "root/{top.py, D/} with D in {src, LICENSES, .git, subprojects, .reuse}, D symlink? ignored? submodule?; D/{G, pkg/h.py} with G from a name list x {file, empty, symlink} x ignored?; all 8 flag combinations",
    }
    ctx.stubs = ["pathlib.Path replaced by a model (is_symlink/is_file/is_dir/stat/resolve)", "VCS strategy replaced by arbitrary answers (is_ignored, is_submodule)", "os.walk replaced by a top-down generator that honours in-place pruning"]
    ctx.outside = [
        "Git's own answer: what `git ls-files --ignored`/check-ignore say for a given .gitignore is an external process, not encodable; decided here: given ANY answer of the VCS layer the selection is right, and a listed answer of git is parsed back exactly",
        "trees deeper than two levels",

    ]
    ctx.assumptions = ["'.git' as a file (gitlink) and '.hgtags' count as VCS metadata on the reference side"]

    def confirm(c, ex):
        if c.func == "_ign":
            key = "license-text-workaround" if ex["name"].startswith(("CAL-1.0", "SHL-2.1")) else f"decision:{ex['name']}:{ex['kind']}:{ex['subset']}"
            return key, f"is_path_ignored says {ex['got']} but the statement says {ex['expected']} for {ex}", {"harness": "C03.py::_ign", "explain": ex}
        if c.func == "_subsetflags":
            return f"lint-vs-lint-file:{ex['dir']}:{ex['include_submodules']}:{ex['include_meson_subprojects']}", f"lint examines {ex['lint_examines']}, lint-file with every file named {ex['lint_file_all_named']}, with only h.py named {ex['lint_file_only_h']} ({ex})", {"harness": "C03.py::_subsetflags", "explain": ex}
        if c.func == "_lintfile":
            return f"lint-file-spelling:{ex['cwd']}:{ex['root']}:{ex['named']}", f"lint-file {ex['named']!r} from {ex['cwd']} with root {ex['root']!r}: {ex['outcome']}, examined {ex['examined']}, expected {ex['expected']}", {"harness": "C03.py::_lintfile", "explain": ex}
        if c.func == "_subset":
            return f"subset-spelling:{ex['root']}:{ex['named_files']}", f"cwd {ex['cwd']}, root {ex['root']!r}, named files {ex['named_files']}: examined {ex['examined']}, expected {ex['expected']}", {"harness": "C03.py::_subset", "explain": ex}
        if c.func == "_tomls":
            return f"toml-discovery:{ex['dir']}:{ex['include_submodules']}:{ex['include_meson_subprojects']}", f"Project.from_directory finds REUSE.toml files {ex['reuse_tomls']} (expected {ex['expected_reuse_tomls']}) and covers {ex['covered_files']} (expected {ex['expected_covered_files']}) for {ex}", {"harness": "C03.py::_tomls", "explain": ex}
        if c.func == "_git":
            return f"git-answer:{ex.get('path')}", f"git's answer {ex.get('git_lists') or ex.get('gitmodules_lists')} is read back wrongly for {ex.get('path')!r}: {ex}", {"harness": "C03.py::_git", "explain": ex}
        if c.func == "_rec":
            return f"annotate-r:{ex['dir']}:{ex['requested']}", f"annotate -r {ex['requested']} expands to {ex['got']}, the covered files below it are {ex['expected']} ({ {k: v for k, v in ex.items() if k not in ('got', 'expected')} })", {"harness": "C03.py::_rec", "explain": ex}
        key = "license-text-workaround" if ex["file"].startswith(("CAL-1.0", "SHL-2.1")) else f"walk:{ex['dir']}:{ex['file']}:{ex['file_kind']}"
        return key, f"iter_files yields {ex['got']}, the statement demands {ex['expected']} for {ex}", {"harness": "C03.py::_walk", "explain": ex}

    xh.settle(ctx, conds, confirm)
    ctx.solver_time += q.secs
    return {"level": "model_checking", "exhaustive": True, "trusted_base": ["z3 regex solver", "re._parser", "vf/re2z3.py", "CrossHair 0.0.110", "decision table written from the statement"]}
