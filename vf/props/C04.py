"""C04 — per-file sources and precedence follow the specification.

XH: the real Project.reuse_info_of / NestedReuseTOML / ReuseTOML / ReuseDep5 chain on real
objects, with the file reader and file-system probes stubbed; symbolic: own information,
.license sibling, per-level REUSE.toml shape.  Oracle: an independent model of the statement."""
from .. import xh

FILES = ["src/reuse/project.py", "src/reuse/global_licensing.py", "src/reuse/_util.py", "src/reuse/__init__.py"]
SHAPES = [None] + [(p, i) for p in ("closest", "aggregate", "override") for i in ("none", "c", "l", "cl")]


def _real_tree(ex):
    """Replay a scenario on a real temporary tree through Project.from_directory + reuse_info_of."""
    import os
    import shutil
    import tempfile

    from reuse.project import Project

    own, sib, lv = ex["own"], ex["sibling"], ex["levels"]
    dirs = [d.rstrip("/") for d in ex.get("dirs", ["", "a/", "a/b/"])]
    if own in ("binary",):
        return None
    d = tempfile.mkdtemp(prefix="vf-c04-", dir=os.environ.get("VF_TMP", None))
    try:
        os.makedirs(os.path.join(d, dirs[2]))
        lic = {0: "MIT", 1: "Apache-2.0", 2: "ISC"}
        for i, s in enumerate(lv):
            if s is None:
                continue
            prec, info = s
            lines = ["version = 1", "", "[[annotations]]", 'path = "**"', f'precedence = "{prec}"']
            if "c" in info:
                lines.append(f'SPDX-FileCopyrightText = "2020 Holder-L{i}"')
            if "l" in info:
                lines.append(f'SPDX-License-Identifier = "{lic[i]}"')
            with open(os.path.join(d, dirs[i], "REUSE.toml"), "w") as fp:
                fp.write("\n".join(lines) + "\n")

        def body(kind, who, l):
            out = []
            if kind in ("c", "cl"):
                out.append(f"# SPDX-FileCopyrightText: 2021 {who}")
            if kind in ("l", "cl"):
                out.append(f"# SPDX-License-Identifier: {l}")
            if kind == "unparseable":
                out.append("# SPDX-License-Identifier: MIT AND")
                out.append("# SPDX-FileCopyrightText: 2021 own")
            return "\n".join(out + ["x = 1"]) + "\n"

        f = os.path.join(d, dirs[2], "f.py")
        with open(f, "w") as fp:
            fp.write(body(own, "own", "0BSD"))
        if sib != "absent":
            with open(f + ".license", "w") as fp:
                fp.write(body(sib, "sib", "Zlib"))
        project = Project.from_directory(d)
        res = project.reuse_info_of(f)
        out = []
        for i in res:
            if i.copyright_lines or i.spdx_expressions:
                cl = tuple(sorted(x.replace("SPDX-FileCopyrightText: ", "") for x in i.copyright_lines))
                out.append([i.source_path, i.source_type.value if i.source_type else None, list(cl), sorted(str(e) for e in i.spdx_expressions), i.path])
        return sorted(out)
    finally:
        shutil.rmtree(d, ignore_errors=True)


def replay(w):
    got = _real_tree(w)
    if got is None:
        return True
    exp = sorted([list(x[:2]) + [list(x[2]), list(x[3]), x[4]] for x in w["expected"]])
    return got != exp


def run(ctx):
    tier = ctx.tier
    carve = sorted(ctx.known)
    conds = []
    if tier == "quick":
        for l0 in range(13):
            conds.append(xh.Cond(f"depth2 root={SHAPES[l0]}", "C04.py", "_ob", {"depth": 2, "levels": [l0, None, None], "carve": carve}, timeout=300))
        for m1 in (0, 1):
            for m2 in (0, 1):
                conds.append(xh.Cond(f"two-tables match1={m1} match2={m2}", "C04.py", "_last", {"m1": m1, "m2": m2, "own_n": 2}, timeout=300, twin="_last_reach"))
    else:
        for l0 in range(13):
            for l1 in range(13):
                conds.append(xh.Cond(f"depth3 root={SHAPES[l0]} mid={SHAPES[l1]}", "C04.py", "_ob", {"depth": 3, "levels": [l0, l1, None], "carve": carve}, timeout=600))
        for m1 in (0, 1):
            for m2 in (0, 1):
                conds.append(xh.Cond(f"two-tables match1={m1} match2={m2}", "C04.py", "_last", {"m1": m1, "m2": m2, "own_n": 4}, timeout=900, twin="_last_reach"))
    conds.append(xh.Cond("dep5 aggregate", "C04.py", "_dep5", {}, timeout=300, twin="_dep5_reach"))
    # nested directories whose names sort before / after 'REUSE.toml' in every plausible sort key
    for dirs in (["", "Docs/", "Docs/3rd/"], ["", "+x/", "+x/(y)/"]):
        for l0 in (1, 5, 9) if tier == "quick" else range(13):
            conds.append(xh.Cond(f"depth2 root={SHAPES[l0]} with nested directories {dirs[1:]}", "C04.py", "_ob", {"depth": 2, "levels": [l0, None, None], "dirs": dirs, "carve": carve}, timeout=300, twin="_ob_reach"))
    for m1, m2 in ((1, 1), (1, 0)):
        conds.append(xh.Cond(f"two tables, the first names the file literally, match2={m2} (last match wins also across literal and glob tables)", "C04.py", "_last", {"m1": m1, "m2": m2, "own_n": 2, "literal_first": True}, timeout=300, twin="_last_reach"))
    for l0 in range(13):
        conds.append(xh.Cond(f"two look-ups on one Project carry no state (root shape {SHAPES[l0]})", "C04.py", "_twice", {"levels": [l0, None, None], "carve": carve}, timeout=300, twin="_twice_reach"))
    for l0 in range(13):
        conds.append(xh.Cond(f"with the real reader below it (file content: nothing, copyright, licence, both, contributor only, contributor + copyright, unparseable expression, empty), root shape {SHAPES[l0]}", "C04.py", "_rr", {"levels": [l0, None, None]}, timeout=300, twin="_rr_reach"))
    ctx.functions_encoded = [
        "reuse.extract.reuse_info_of_file (real, on in-memory content) below reuse.project.Project.reuse_info_of",
        "reuse.project.Project.reuse_info_of",
        "reuse.global_licensing.NestedReuseTOML.reuse_info_of / _find_relevant_tomls / _find_relevant_tomls_and_items",
        "reuse.global_licensing.ReuseTOML.reuse_info_of / find_annotations_item, AnnotationsItem.matches",
        "reuse.global_licensing.ReuseDep5.reuse_info_of (real python-debian Copyright object)",
        "reuse.ReuseInfo.copy / contains_*",
    ]
    depth = 2 if tier == "quick" else 3
    ctx.bounds = {
        "file": "own information in {none, copyright, licence, both, unparseable, binary} x .license sibling in {absent, none, copyright, licence, both}",
        "REUSE.toml chain": f"{depth} nested levels (root, a/, a/b/), each absent or one matching table with precedence in {{closest, aggregate, override}} x information in {{none, copyright, licence, both}}: complete",
        "real reader": "8 file contents (incl. contributor only, unparseable expression, empty) x 13 x 13 shapes of two nested REUSE.toml files, reader not stubbed",
        "two tables": "one REUSE.toml with two tables, each of the 12 shapes, each matching or not (last match wins)",
        "dep5": "one Files paragraph matching or not x own x sibling",
        "sequence": "two files under the same 2-level REUSE.toml chain looked up one after the other on one Project object (4 x 4 own-information kinds x 13 x 13 shapes), then the first again",
    }
    ctx.stubs = [
        "reuse.project.reuse_info_of_file -> returns what a file of the chosen kind yields, same contract as the real reader (C02 owns the reader)",
        "reuse.project.is_binary, reuse.project._determine_license_path -> booleans of the scenario",
        "pathlib pure-path methods run natively on concrete arguments (vf/harness/common.py::nativize_pathlib)",
    ]
    ctx.outside = ["chains deeper than the bound" + ("; depth 3 is in the thorough tier" if tier == "quick" else ""), "globs other than '**' at the levels (C05 owns matching)"]
    ctx.assumptions = ["the model in vf/harness/C04.py::model is the statement; it agrees with the real code on all 65 910 depth-3 cells except the listed closest-split finding (measured natively)"]

    def confirm(c, ex):
        if c.func == "_ob":
            w = {"own": ex["own"], "sibling": ex["sibling"], "levels": ex["levels"], "expected": ex["expected"], "dirs": ex.get("dirs", ["", "a/", "a/b/"])}
            if ex["got"] == ex["expected"] and ex["file_read"] != ex["file_must_be_read"]:
                return (f"file-read:{ex['own']}:{ex['sibling']}:{ex['levels']}", f"file read={ex['file_read']} but must be {ex['file_must_be_read']} for {ex}", w)
            if not replay(w):
                return None
            key = ex.get("known_key") or f"cell:{ex['own']}:{ex['sibling']}:{ex['levels']}"
            return key, f"own={ex['own']} sibling={ex['sibling']} levels={ex['levels']}: got {ex['got']}, expected {ex['expected']}", w
        if c.func == "_twice":
            return f"stateful:{ex['own_first']}:{ex['own_second']}:{ex['levels']}", f"second look-up on the same Project gives {ex['second']} (expected {ex['second_expected']}); first look-up repeated gives {ex['first_again']} vs {ex['first']}; own={ex['own_first']},{ex['own_second']} levels={ex['levels']}", {"harness": "C04.py::_twice", "explain": ex, "own": "binary"}
        return f"{c.func}:{ex}", f"{c.func}: got {ex.get('got')} expected {ex.get('expected')} for {ex}", {"harness": c.func, "explain": ex, "own": "binary"}

    xh.settle(ctx, conds, confirm)
    return {"level": "model_checking", "exhaustive": True, "trusted_base": ["CrossHair 0.0.110 + z3", "model of the statement (validated natively on the whole depth-3 table)"]}
