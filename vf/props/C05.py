"""C05 — REUSE.toml path globs match exactly the language the specification defines.

Engine RZ3: for every glob g (enumerated up to a bound) the *real*
AnnotationsItem(paths=[g]) is built, its compiled pattern is converted to a z3
regular expression (with the semantics of the method `matches` really calls,
read from its AST) and compared by language inclusion with the reference
language of the statement.  The path quantifier is discharged by z3 without
length bound.
"""
import ast
import inspect
import itertools
import random
import re
import textwrap
import time

import z3

from .. import re2z3 as R

FILES = ["src/reuse/global_licensing.py"]

NOSLASH = R._ranges_to_re(R._negate_ranges([(47, 47)]))
NOLF_CH = R._ranges_to_re(R._negate_ranges([(10, 10)]))
NOSLASH_NOLF = R._ranges_to_re(R._negate_ranges([(10, 10), (47, 47)]))
D_NOLF = z3.Star(NOLF_CH)
D_LF = z3.Concat(R.FULL, R.LF, R.FULL)


def tokens(g):
    """Tokeniser of the statement. None = trailing lone backslash (no reference)."""
    out, i, n = [], 0, len(g)
    while i < n:
        c = g[i]
        if c == "\\":
            if i + 1 >= n:
                return None
            out.append(("lit", g[i + 1], True))
            i += 2
        elif c == "*":
            j = i
            while j < n and g[j] == "*":
                j += 1
            out.append(("gs",) if j - i >= 2 else ("st",))
            i = j
        else:
            out.append(("lit", c, False))
            i += 1
    return out


def ref(ts, wide):
    """Reference language. wide: `**/` may also match zero directories."""
    parts = []
    i = 0
    one = NOSLASH
    anyc = R.ALLCHAR
    while i < len(ts):
        t = ts[i]
        if t[0] == "lit":
            parts.append(R.lit(t[1]))
        elif t[0] == "st":
            parts.append(z3.Star(one))
        else:
            if wide and i + 1 < len(ts) and ts[i + 1][0] == "lit" and ts[i + 1][1] == "/" and not ts[i + 1][2]:
                parts.append(z3.Option(z3.Concat(z3.Star(anyc), R.lit("/"))))
                i += 1
            else:
                parts.append(z3.Star(anyc))
        i += 1
    return R.concat(parts)


def match_mode():
    """Read from the AST of the real `matches` which re method decides."""
    from reuse.global_licensing import AnnotationsItem

    src = textwrap.dedent(inspect.getsource(AnnotationsItem.matches))
    tree = ast.parse(src)
    modes = []
    for node in ast.walk(tree):
        if isinstance(node, ast.Call) and isinstance(node.func, ast.Attribute):
            f = node.func
            if isinstance(f.value, ast.Attribute) and f.value.attr == "_paths_regex":
                modes.append(f.attr)
    if len(modes) != 1 or modes[0] not in ("match", "fullmatch", "search"):
        return None
    # the return expression must be the truthiness of that call
    ret = [n for n in ast.walk(tree) if isinstance(n, ast.Return)]
    if len(ret) != 1:
        return None
    v = ret[0].value
    ok = (
        isinstance(v, ast.Call)
        and isinstance(v.func, ast.Name)
        and v.func.id == "bool"
        and isinstance(v.args[0], ast.Call)
        and isinstance(v.args[0].func, ast.Attribute)
        and v.args[0].func.attr == modes[0]
    ) or (isinstance(v, ast.Compare) and isinstance(v.left, ast.Call) and isinstance(v.ops[0], ast.IsNot))
    return modes[0] if ok else None


def replay(w):
    """w = {glob(s), path, expected} -> True iff the real code still disagrees."""
    from reuse.global_licensing import AnnotationsItem

    globs = w["globs"] if "globs" in w else [w["glob"]]
    return bool(AnnotationsItem(paths=list(globs)).matches(w["path"])) != bool(w["expected"])


def enum_globs(alphabet, maxlen):
    for n in range(1, maxlen + 1):
        for tup in itertools.product(alphabet, repeat=n):
            yield "".join(tup)


def run(ctx):
    from reuse.global_licensing import AnnotationsItem

    tier = ctx.tier
    alphabet = "a./*\\"
    maxlen = 4 if tier == "quick" else 6
    n_random = 150 if tier == "quick" else 2000
    rnd = random.Random(ctx.seed)
    q = R.Q(timeout_ms=30000)
    mode = match_mode()
    ctx.functions_encoded = [
        "reuse.global_licensing.AnnotationsItem.__attrs_post_init__.translate (run for each glob; its compiled output is what is encoded)",
        "reuse.global_licensing.AnnotationsItem.matches (method name read from its AST: %s)" % mode,
    ]
    if mode is None:
        ctx.ob("matches-shape", "ast", "inconclusive", detail="AnnotationsItem.matches is not `bool(self._paths_regex.<m>(path))`; falling back to concrete validation only")
        mode = "match"
    ctx.bounds = {
        "glob": f"all strings over {list(alphabet)} of length 1..{maxlen} (complete) + {n_random} random globs of length {maxlen+1}..12 over the same alphabet plus 'b','-',' '",
        "path": "unbounded: any string over z3's character range U+0000..U+2FFFF, any length",
        "pairs": "two-glob items: all ordered pairs from a pool",
    }
    ctx.outside = [
        "globs longer than the enumeration bound other than the random sample",
        "code points above U+2FFFF (z3's character sort)",
        "the TOML string-escape layer in front of the glob",
    ]
    ctx.assumptions = [
        "re._parser.parse defines pattern syntax; vf/re2z3.py converts it (validated each run against re on z3-produced witnesses)",
        "where the statement leaves '**/' open the check is a sandwich: narrow = '**' then literal '/', wide = optional '(anything/)'",
    ]
    globs = []
    skipped = 0
    for g in enum_globs(alphabet, maxlen):
        if tokens(g) is None:
            skipped += 1
        else:
            globs.append(g)
    ralpha = alphabet + "*\\/" + "b- "
    random_globs = set()
    for _ in range(n_random):
        g = "".join(rnd.choice(ralpha) for _ in range(rnd.randint(maxlen + 1, 12)))
        if tokens(g) is None:
            skipped += 1
        else:
            globs.append(g)
            random_globs.add(g)
    ctx.extra["globs_checked"] = len(globs)
    ctx.extra["globs_skipped_trailing_backslash"] = skipped

    validated = 0

    def check_real(globs_, path, expected, why):
        """expected = what the *spec* demands for this path (True/False)."""
        return replay({"globs": globs_, "path": path, "expected": expected})

    for g in globs:
        ts = tokens(g)
        t0 = time.time()
        n0 = q.n
        try:
            item = AnnotationsItem(paths=[g])
            impl = R.language(item._paths_regex, mode)
        except R.Unsupported as e:
            ctx.harness_error(f"the compiled pattern of glob {g!r} is outside what vf/re2z3.py converts: {e}")
            ctx.ob(f"glob {g!r}", "RZ3", "inconclusive", detail=f"unsupported: {e}")
            continue
        except Exception as e:  # translate itself crashed: that is a violation (a glob in the language must compile)
            st = ctx.violation(f"crash:{type(e).__name__}", f"glob {g!r} cannot be compiled: {e!r}", {"glob": g, "path": "", "expected": False})
            ctx.ob(f"glob {g!r}", "RZ3", st)
            continue
        for dom_name, dom in (("nolf", D_NOLF), ("lf", D_LF)):
            verdict = "holds"
            detail = None
            t0 = time.time()
            n0 = q.n
            # under: something inside the narrow reading is missed; over: something outside the wide reading is matched
            for direction, a, b, expected in (
                ("under", ref(ts, False), impl, True),
                ("over", impl, ref(ts, True), False),
            ):
                r, w = q.diff(a, b, dom)
                if r == "unsat":
                    continue
                if r != "sat":
                    verdict = "inconclusive"
                    detail = f"{dom_name}/{direction}: solver said {r}"
                    continue
                # counterexample: replay on the real code first
                if not check_real([g], w, expected, direction):
                    ctx.harness_error(f"counterexample does not replay: glob={g!r} path={w!r} expected={expected}")
                    verdict = "inconclusive"
                    continue
                validated += 1
                key = f"glob:{g}:{direction}:{dom_name}"
                what = f"glob {g!r} compiled to {item._paths_regex.pattern!r}: path {w!r} " + (
                    "is in the specified language but not matched" if expected else "is matched but outside the specified language"
                )
                st = ctx.violation(key, what, {"glob": g, "path": w, "expected": expected})
                if st == "violated":
                    verdict = "violated"
                elif verdict == "holds":
                    verdict = "known"
                detail = what
            ctx.ob(
                f"glob {g!r} [{'LF-free paths' if dom_name == 'nolf' else 'paths containing LF'}]",
                "RZ3",
                verdict,
                secs=time.time() - t0,
                detail=detail,
                queries=q.n - n0,
                sample={"glob": g, "compiled": item._paths_regex.pattern, "domain": dom_name, "obligations": "narrow∩D ⊆ impl∩D ⊆ wide", "verdict": verdict}
                if dom_name == "nolf"
                else None,
            )
        # translator validation on solver-produced witnesses (member / non-member, LF-free)
        r, w = q.witness(R.inter(D_NOLF, impl))
        if r == "sat":
            if not AnnotationsItem(paths=[g]).matches(w):
                ctx.harness_error(f"encoding/real disagreement: glob={g!r} path={w!r} encoded=match real=no match")
            validated += 1
        r, w = q.witness(R.inter(D_NOLF, R.comp(impl)))
        if r == "sat":
            if AnnotationsItem(paths=[g]).matches(w):
                ctx.harness_error(f"encoding/real disagreement: glob={g!r} path={w!r} encoded=no match real=match")
            validated += 1

    # ---- two globs in one item: the alternation is the union of the single languages
    pool = ["a", "*", "**", "a/*", "*.a", "**/a", "a/**", "\\*", "a*b", "*/*", "a\\\\", "./a", "**.a", "a.a", "/"]
    if tier == "thorough":
        pool += [g for g in rnd.sample(globs, 25)]
    for g1, g2 in itertools.permutations(pool, 2):
        t0 = time.time()
        n0 = q.n
        try:
            both = R.language(AnnotationsItem(paths=[g1, g2])._paths_regex, mode)
            l1 = R.language(AnnotationsItem(paths=[g1])._paths_regex, mode)
            l2 = R.language(AnnotationsItem(paths=[g2])._paths_regex, mode)
        except R.Unsupported as e:
            ctx.harness_error(f"the compiled pattern of globs {g1!r},{g2!r} is outside what vf/re2z3.py converts: {e}")
            ctx.ob(f"pair {g1!r},{g2!r}", "RZ3", "inconclusive", detail=str(e))
            continue
        u = z3.Union(l1, l2)
        verdict = "holds"
        for a, b, expected in ((u, both, True), (both, u, False)):
            r, w = q.diff(a, b)
            if r == "unsat":
                continue
            if r != "sat":
                verdict = "inconclusive"
                continue
            real = AnnotationsItem(paths=[g1, g2]).matches(w)
            single = AnnotationsItem(paths=[g1]).matches(w) or AnnotationsItem(paths=[g2]).matches(w)
            if bool(real) == bool(single):
                ctx.harness_error(f"pair counterexample does not replay: {g1!r},{g2!r} path={w!r}")
                verdict = "inconclusive"
                continue
            st = ctx.violation(
                f"pair:{g1}|{g2}",
                f"item with globs [{g1!r},{g2!r}] {'misses' if expected else 'matches'} path {w!r} although the single globs say otherwise",
                {"globs": [g1, g2], "path": w, "expected": bool(single)},
            )
            verdict = st if st == "violated" else "known"
        ctx.ob(f"pair {g1!r},{g2!r}", "RZ3", verdict, secs=time.time() - t0, queries=q.n - n0)

    ctx.extra["witnesses_replayed_on_real_matches"] = validated
    ctx.queries = q.n
    ctx.solver_time = q.secs
    return {
        "level": "model_checking",
        "exhaustive": True,
        "trusted_base": ["z3 regex/sequence solver", "re._parser", "vf/re2z3.py (validated per run)"],
        "explanation": "per glob: 4 language-inclusion queries (2 directions × LF-free/LF domains), each unbounded in the path; plus union obligations for multi-glob items",
    }
