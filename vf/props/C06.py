"""C06 — licence inventory: missing, unused, bad, deprecated and extension-less licences.

XH over the real pipeline  LICENSES/** listing -> Project._find_licenses/_identifier_of_license ->
FileReport.generate (classification loop) -> ProjectReport.generate -> used/unused, against the
set algebra of the statement; RZ3 for the LicenseRef- pattern; one concrete pass over the bundled
SPDX list (data)."""
import time

import z3

from .. import re2z3 as R
from .. import xh

FILES = ["src/reuse/report.py", "src/reuse/project.py", "src/reuse/_licenses.py", "src/reuse/_util.py", "src/reuse/extract.py"]
NEXPR = 14
KNOWN = "licenseref-unprovided-reported-bad"


def _tree_lint(w):
    """Replay on a real temporary tree through Project.from_directory + ProjectReport.generate."""
    import os
    import shutil
    import tempfile

    from reuse.project import Project
    from reuse.report import ProjectReport

    d = tempfile.mkdtemp(prefix="vf-c06-")
    try:
        for f in w["files"]:
            rel = os.path.relpath(f["path"], "/proj")
            p = os.path.join(d, rel)
            os.makedirs(os.path.dirname(p), exist_ok=True)
            lines = []
            if f["copyright"]:
                lines.append("SPDX-FileCopyrightText: 2020 Jane Doe")
            if f["expression"]:
                lines.append(f"SPDX-License-Identifier: {f['expression']}")
            with open(p, "w") as fp:
                fp.write("\n".join(lines + ["body"]) + "\n")
            if f["read_error"]:
                return None  # permission faults are not reproducible as root; harness-level only
        for l in w["licenses_dir"]:
            rel = os.path.relpath(l, "/proj")
            p = os.path.join(d, rel)
            if rel.endswith("/sub") or os.path.basename(rel) == "sub":
                os.makedirs(p, exist_ok=True)
                continue
            os.makedirs(os.path.dirname(p), exist_ok=True)
            with open(p, "w") as fp:
                fp.write("licence text\n")
        project = Project.from_directory(d)
        rep = ProjectReport.generate(project, do_checksum=False, multiprocessing=False)

        def rel(p):
            return "/proj/" + os.path.relpath(str(p), d)

        return {
            "missing": {k: sorted(rel(p) for p in v) for k, v in rep.missing_licenses.items()},
            "bad": sorted(rep.bad_licenses),
            "unused": sorted(rep.unused_licenses),
            "deprecated": sorted(rep.deprecated_licenses),
            "noext": sorted(rep.licenses_without_extension),
            "no_copyright": sorted(rel(p) for p in rep.files_without_copyright),
            "no_licence": sorted(rel(p) for p in rep.files_without_licenses),
            "read_errors": sorted(rel(p) for p in rep.read_errors),
            "used": sorted(rep.used_licenses),
            "compliant": rep.is_compliant,
        }
    finally:
        shutil.rmtree(d, ignore_errors=True)


def replay(w):
    if "licenseref" in w:
        from reuse.extract import _LICENSEREF_PATTERN

        return bool(_LICENSEREF_PATTERN.match(w["licenseref"])) != w["expected"]
    got = _tree_lint(w)
    if got is None:
        return True
    return got != w["expected"]


def confirm_inventory(c, ex):
    w = {"files": ex["files"], "licenses_dir": ex["licenses_dir"], "expected": ex["expected"]}
    if not replay(w):
        return None
    diff = {k: (ex["expected"][k], ex["got"][k]) for k in ex["expected"] if ex["expected"][k] != ex["got"][k]}
    key = ex.get("known_key") or "inventory:" + ",".join(sorted(diff)) + ":" + "|".join(str(f["expression"]) for f in ex["files"]) + ":" + "|".join(x.split("LICENSES/")[-1] for x in ex["licenses_dir"])
    return key, f"files={ex['files']} LICENSES={ex['licenses_dir']}: differs in {diff}", w


def spdx_list_pass(ctx):
    """Data pass (not a solver obligation): every identifier of the bundled lists falls in exactly one class,
    and _identifier_of_license resolves ID.txt to ID for each of them."""
    from pathlib import Path

    from reuse._licenses import EXCEPTION_MAP, LICENSE_MAP
    from reuse.project import Project

    p = Project(Path("/proj"), vcs_strategy=None)
    bad = []
    for k in list(LICENSE_MAP) + list(EXCEPTION_MAP):
        try:
            if p._identifier_of_license(Path(f"LICENSES/{k}.txt")) != k:
                bad.append(k)
        except Exception as e:  # noqa
            bad.append(f"{k}:{type(e).__name__}")
    ctx.extra["spdx_list_entries"] = len(LICENSE_MAP) + len(EXCEPTION_MAP)
    ctx.extra["spdx_list_resolution_failures"] = bad[:10]
    return bad


def licenseref_language(ctx):
    """RZ3: L(_LICENSEREF_PATTERN, .match) == LicenseRef-[A-Za-z0-9.-]+ (unbounded)."""
    from reuse.extract import _LICENSEREF_PATTERN

    q = R.Q()
    t0 = time.time()
    impl = R.language(_LICENSEREF_PATTERN, "match")
    idch = R.union([R.rng(ord("a"), ord("z")), R.rng(ord("A"), ord("Z")), R.rng(ord("0"), ord("9")), R.lit("."), R.lit("-")])
    ref = z3.Concat(R.lit("LicenseRef-"), z3.Plus(idch))
    from . import C05

    for dom_name, dom in (("LF-free", C05.D_NOLF), ("with LF", C05.D_LF)):
        verdict = "holds"
        detail = None
        for direction, a, b in (("under", ref, impl), ("over", impl, ref)):
            r, w = q.diff(a, b, dom)
            if r == "unsat":
                continue
            if r != "sat":
                verdict, detail = "inconclusive", r
                continue
            real = bool(_LICENSEREF_PATTERN.match(w))
            if real == (direction == "under"):
                ctx.harness_error(f"LicenseRef counterexample does not replay: {w!r}")
                verdict = "inconclusive"
                continue
            key = f"licenseref:{direction}:{w!r}"
            st = ctx.violation(key, f"_LICENSEREF_PATTERN {'rejects' if direction == 'under' else 'accepts'} {w!r}", {"licenseref": w, "expected": direction == "under"})
            verdict = st if st == "violated" else "known"
            detail = f"{direction}: {w!r}"
        ctx.ob(f"LicenseRef language [{dom_name}]", "RZ3", verdict, secs=time.time() - t0, detail=detail, queries=2)


def run(ctx):
    tier = ctx.tier
    carve = sorted(ctx.known)
    conds = []
    tmo = 400 if tier == "quick" else 1500
    allforms = list(range(8))
    # one file, every way of use x every provision form of three identifiers (two identifier groups)
    groups = [["MIT", "GPL-3.0", "LicenseRef-x"], ["Foo", "GPL-2.0-or-later", "Classpath-exception-2.0"], ["LicenseRef-a_b", "LicenseRef-x", "MIT"]]
    for e in range(NEXPR):
        for g in groups:
            if tier == "quick" and g is groups[1] and e not in (0, 5, 9):
                continue
            if tier == "quick" and g is groups[2] and e not in (0, 4, 11):
                continue
            conds.append(
                xh.Cond(
                    f"one file expr#{e} x provision forms of {g}",
                    "REP.py",
                    "_inv",
                    {"nfiles": 1, "exprs": [e], "prov_ids": g, "forms": allforms, "fix": {"cop": True, "err": False}, "carve": carve},
                    timeout=tmo,
                    twin="_inv_reach",
                )
            )
    # two files: every pair of ways of use x {absent, ID.txt} for three identifiers
    for e in range(NEXPR):
        conds.append(
            xh.Cond(
                f"two files expr#{e} x any x provision in {{absent,ID.txt}}",
                "REP.py",
                "_inv",
                {"nfiles": 2, "exprs": list(range(NEXPR)), "prov_ids": groups[0], "forms": [0, 1] if tier == "quick" else [0, 1, 3, 5], "fix": {"cop": True, "err": False, "file0": [False, True, e]}, "carve": carve},
                timeout=tmo,
                twin="_inv_reach",
            )
        )
    ctx.functions_encoded = [
        "reuse.project.Project._find_licenses / _identifier_of_license (glob.iglob and Path.exists/is_dir replaced by a listing)",
        "reuse.report.FileReport.generate (license_keys, '+' stripping, bad/missing tests)",
        "reuse.report.ProjectReport.generate (bad/deprecated LICENSES entries), used_licenses, unused_licenses",
        "reuse.extract._LICENSEREF_PATTERN (RZ3, unbounded)",
    ]
    ctx.bounds = {
        "identifier classes": "current (MIT), deprecated (GPL-3.0), exception (Classpath-exception-2.0), LicenseRef-x, malformed LicenseRef-a_b, unknown (Foo), wrong case (mit), with real bundled SPDX records",
        "ways of use": "14 expressions (incl. two with a repeated identifier): alone, with '+', AND, OR in parentheses, WITH, LicenseRef with '+', none; one or two files",
        "provision": "per identifier {absent, ID.txt, ID.md, ID (no extension), sub/ID.txt, ID+.txt, ID.txt with ID.txt.license, ID.txt with ID.txt.license.bak}, three identifiers at a time",
    }
    ctx.stubs = ["project.reuse_info_of returns the chosen expression (C02/C04 own reading and precedence)", "glob.iglob / Path.exists / is_dir / is_file replaced by the listing", "random pseudo-checksum made deterministic", "pathlib pure methods and licence parsing run natively on concrete values"]
    ctx.outside = ["identifiers other than the six representatives (one data pass checks that every bundled identifier resolves from ID.txt)", "two LICENSES files resolving to one identifier (the tool aborts with RuntimeError: C16's domain)", "LicenseRef-Unknown*"]
    ctx.assumptions = ["vf/harness/REP.py::model is the statement's set algebra; validated natively against the real code on 50k scenarios (only the listed finding differs)"]

    bad = spdx_list_pass(ctx)
    if bad:
        ctx.violation("spdx-list-resolution", f"bundled identifiers not resolved from ID.txt: {bad[:5]}", {"ids": bad[:20], "files": [], "licenses_dir": [], "expected": {}})
    licenseref_language(ctx)
    xh.settle(ctx, conds, confirm_inventory)
    return {"level": "model_checking", "exhaustive": True, "trusted_base": ["CrossHair 0.0.110 + z3", "model of the statement (validated natively)"]}
