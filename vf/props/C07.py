"""C07 — what annotate writes, the linter reads back.

XH + PYRE over the real _create_new_header (render -> comment -> re-extract -> compare) with the real
create_comment of every comment style and the real reader; the Jinja template is replaced by a model
whose default variant is validated against the bundled template on every run."""
import itertools
import random

from .. import pyre_validate, xh

FILES = ["src/reuse/header.py", "src/reuse/comment.py", "src/reuse/extract.py", "src/reuse/copyright.py", "src/reuse/templates/default_template.jinja2", "src/reuse/_annotate.py"]


def styles():
    from reuse import comment

    out = []
    for c in comment._all_style_classes():
        if c.__name__ == "UncommentableCommentStyle":
            continue
        out.append(c)
    return out


def validate_template_model(ctx, n=300):
    """The default-template model against the real DEFAULT_TEMPLATE (harness error on mismatch)."""
    import importlib
    import os

    os.environ.setdefault("VF_PARAMS", "{}")
    from reuse.header import DEFAULT_TEMPLATE

    from ..harness.C07 import TemplateModel  # noqa  (import patches module-level patterns of reuse.extract; undone below)

    rnd = random.Random(ctx.seed)
    words = ["SPDX-FileCopyrightText: 2020 Jane", "Copyright (C) Ünï", "© X", "a{{b}}", "{% x %}", "", " lead", "trail ", "<b>&amp;"]
    t = TemplateModel("default")
    bad = 0
    for _ in range(n):
        args = dict(
            copyright_lines=[rnd.choice(words) for _ in range(rnd.randint(0, 3))],
            contributor_lines=[rnd.choice(words) for _ in range(rnd.randint(0, 2))],
            spdx_expressions=[rnd.choice(["MIT", "GPL-3.0-or-later", "A AND B"]) for _ in range(rnd.randint(0, 2))],
        )
        if DEFAULT_TEMPLATE.render(**args).strip("\n") != t.render(**args).strip("\n"):
            bad += 1
    return bad


def style_tables(ctx):
    """Every entry of the extension and file-name tables resolves to a style class that is covered symbolically."""
    from reuse import comment

    covered = {c.__name__ for c in styles()} | {"UncommentableCommentStyle"}
    n = 0
    missing = []
    for table in (comment.EXTENSION_COMMENT_STYLE_MAP, comment.FILENAME_COMMENT_STYLE_MAP):
        for k, v in table.items():
            n += 1
            if v.__name__ not in covered:
                missing.append((k, v.__name__))
    ctx.extra["style_table_entries"] = n
    ctx.extra["style_table_entries_without_covered_style"] = missing[:5]
    return missing


def replay(w):
    """Run the case on the real, un-patched code with the real default template where possible."""
    if w.get("harness"):
        return True  # file-level witnesses are re-run by the harness itself (concrete())
    import reuse.comment as cm
    from reuse import ReuseInfo, _LICENSING
    from reuse.copyright import make_copyright_line
    from reuse.exceptions import CommentCreateError, MissingReuseInfoError
    from reuse.extract import extract_reuse_info
    from reuse.header import _create_new_header

    if w.get("template") != "default":
        return True
    line = make_copyright_line(w["holder"], w.get("year"), w["prefix"])
    info = ReuseInfo(spdx_expressions={_LICENSING.parse(e) for e in w["expressions"]}, copyright_lines={line}, contributor_lines={w["contributor"]})
    try:
        out = _create_new_header(info, style=getattr(cm, w["style"]), force_multi=w["multi"])
    except (CommentCreateError, MissingReuseInfoError):
        return False
    try:
        back = extract_reuse_info(out)
    except Exception:  # noqa
        return True
    return not (back.copyright_lines == {line} and {str(e) for e in back.spdx_expressions} == set(w["expressions"]) and back.contributor_lines == {w["contributor"]})


def run(ctx):
    tier = ctx.tier
    n, bad = pyre_validate.validate(2000 if tier == "quick" else 8000, ctx.seed)
    ctx.extra["pyre_validation_comparisons"] = n
    if bad:
        ctx.harness_error(f"PYRE disagrees with re: {bad[:3]}")
        return {"level": "model_checking"}
    tb = validate_template_model(ctx)
    ctx.extra["template_model_disagreements"] = tb
    if tb:
        ctx.harness_error(f"default-template model differs from the bundled template on {tb} inputs")
        return {"level": "model_checking"}
    # undo the module-level patching done by importing the harness in this process
    import importlib

    import reuse.comment
    import reuse.copyright
    import reuse.extract

    importlib.reload(reuse.comment)
    importlib.reload(reuse.extract)
    importlib.reload(reuse.copyright)
    import reuse.header

    importlib.reload(reuse.header)
    missing = style_tables(ctx)
    if missing:
        ctx.violation("style-table", f"file types without a covered style: {missing[:3]}", {"template": "x"})
    carve = sorted(ctx.known)
    conds = []
    tmo = 300 if tier == "quick" else 2400
    sts = styles()
    prefixes_q = ["spdx", "string-c", "symbol"]
    for c in sts:
        forms = []
        if c.__name__ == "EmptyCommentStyle":
            forms = [False]
        else:
            if c.can_handle_single():
                forms.append(False)
            if c.can_handle_multi():
                forms.append(True)
        for multi in forms:
            name = c.__name__
            conds.append(xh.Cond(f"{name} multi={multi} default template, holder + one free char at end", "C07.py", "_hdr", {"style": name, "multi": multi, "carve": carve}, timeout=tmo, twin="_hdr_reach"))
            if tier == "thorough":
                for hole in ("start", "mid"):
                    conds.append(xh.Cond(f"{name} multi={multi} default template, holder + one free char at {hole}", "C07.py", "_hdr", {"style": name, "multi": multi, "hole": hole, "carve": carve}, timeout=tmo, twin="_hdr_reach"))
                conds.append(xh.Cond(f"{name} multi={multi} default template, contributor + one free char at end", "C07.py", "_hdr", {"style": name, "multi": multi, "where": "contributor", "carve": carve}, timeout=tmo, twin="_hdr_reach"))
    # template behaviours, prefixes, years on representative styles
    reps = [("PythonCommentStyle", False), ("CCommentStyle", True), ("HtmlCommentStyle", True), ("LispCommentStyle", False), ("JuliaCommentStyle", True), ("EmptyCommentStyle", False)]
    for (name, multi), tmpl in itertools.product(reps, ["no-licence", "no-copyright", "no-contributors", "nothing", "commented", "extra-copyright-no-licence", "extra-licence-no-copyright"]):
        if tier == "quick" and name in ("LispCommentStyle", "JuliaCommentStyle") and tmpl not in ("no-licence", "extra-copyright-no-licence"):
            continue
        conds.append(xh.Cond(f"{name} multi={multi} template={tmpl}, holder + one free char at end", "C07.py", "_hdr", {"style": name, "multi": multi, "template": tmpl, "carve": carve}, timeout=tmo, twin="_hdr_reach"))
    for (name, multi), prefix, year in itertools.product(reps[:3] if tier == "quick" else reps, prefixes_q if tier == "quick" else ["spdx", "spdx-c", "spdx-string-c", "spdx-string", "spdx-string-symbol", "spdx-symbol", "string", "string-c", "string-symbol", "symbol"], [None, "2020", "1999 - 2003"]):
        if prefix == "spdx" and year is None:
            continue
        if tier == "quick" and year == "2020" and prefix != "spdx":
            continue
        conds.append(xh.Cond(f"{name} multi={multi} prefix={prefix} year={year}, contributor + one free char in the middle", "C07.py", "_hdr", {"style": name, "multi": multi, "prefix": prefix, "year": year, "where": "contributor", "hole": "mid", "exprs": ["MIT", "GPL-2.0-or-later WITH Classpath-exception-2.0"], "carve": carve}, timeout=tmo, twin="_hdr_reach"))
    if tier == "thorough":
        for name, multi in reps:
            conds.append(xh.Cond(f"{name} multi={multi} default template, holder + two free chars at end", "C07.py", "_hdr", {"style": name, "multi": multi, "nfree": 2, "carve": carve}, timeout=tmo, twin="_hdr_reach"))
    conds.append(xh.Cond("real Jinja templates (bundled default, a project template, a pre-commented project template found through get_template) render the requested lines verbatim for every printable ASCII character", "C07.py", "_jinja", {}, timeout=tmo, twin="_jinja_reach"))
    ctx.functions_encoded = [
        "reuse._annotate.add_header_to_file (in-memory file) -> reuse.extract.decoded_text_from_binary + extract_reuse_info (file-level read-back)",
        "reuse.cli.annotate.get_template / find_template (real Jinja environment, templates from vf/fixtures/proj/.reuse/templates)",
        "reuse.header._create_new_header",
        "reuse.comment.CommentStyle.create_comment / _create_comment_single / _create_comment_multi for every style class",
        "reuse.extract.extract_reuse_info, find_spdx_tag, filter_ignore_block; the real patterns (PYRE)",
        "reuse.copyright.make_copyright_line",
        "reuse.comment.EXTENSION_COMMENT_STYLE_MAP / FILENAME_COMMENT_STYLE_MAP (walked concretely: every entry maps to a covered style)",
    ]
    ctx.bounds = {
        "styles": f"{len(sts)} style classes x {{single, multi}} where supported",
        "request": "one copyright notice (holder 'Jane Doe' with ONE free character - any code point but line breaks - at the end" + ("/start/middle" if tier == "thorough" else "") + "), one contributor, one or two licence expressions; " + ("10" if tier == "thorough" else "3") + " prefixes x years {none, 2020, 1999 - 2003} on representative styles",
        "templates": "default (validated against the bundled template), drops licences, drops copyright, drops contributors, drops everything, pre-commented, adds a copyright line while dropping the licences, adds a licence while dropping the copyright; plus three real Jinja templates for rendering fidelity",
    }
    ctx.stubs = ["Jinja template -> TemplateModel (same render() contract)", "ReuseInfo fields are list-backed sets (no hashing of symbolic strings)", "module-level patterns wrapped in PyRe; licence parsing native"]
    ctx.outside = ["arbitrary user Jinja templates beyond the six behaviours", "more than one free character (thorough: two, on 6 style/form pairs)", ".license plumbing and write-back (C11)", "pre-existing file content (C08/C09/C10)"]
    ctx.assumptions = [f"PYRE == re on {n} comparisons; default-template model == bundled template on 300 inputs this run"]

    # file level: what lands on disk (line-ending convention, byte order mark, final newline) is read back by the linter's reader
    for name, multi, ext in (("PythonCommentStyle", False, ".py"), ("CCommentStyle", True, ".c"), ("HtmlCommentStyle", True, ".html"), ("EmptyCommentStyle", False, ".license")):
        conds.append(xh.Cond(f"file level {name}: the written file (LF / CRLF / CR, BOM, final newline) is read back by decoded_text_from_binary + extract_reuse_info", "HDR.py", "_fileread", {"style": name, "multi": multi, "nlines": 2, "ext": ext, "carve": []}, timeout=400 if tier == "quick" else 2000, twin="_fileread_reach"))

    def confirm(c, ex):
        if c.func == "_fileread":
            return f"file-readback:{ex['style']}:{ex['body']}:{ex['why'][:50]}", f"{ex['style']}: file {ex['text']!r} annotated to {ex['written']!r}: {ex['why']} (read back: {ex['read_back']})", {"harness": "HDR.py::_fileread", "explain": ex}
        if c.func == "_jinja":
            return f"template-alters-text:{ex['template']}:{ex['character']!r}", f"template {ex['template']} does not render the request verbatim for holder {ex['holder']!r}: {ex['rendered']!r}", {"template": "jinja", "explain": ex}
        w = {k: ex[k] for k in ("style", "multi", "template", "prefix", "year", "holder", "contributor", "expressions")}
        if not replay(w):
            return None
        key = ex.get("known_key") or f"header:{ex['style']}:{ex['multi']}:{ex['template']}:{ex['holder']!r}"
        return key, f"{ex['style']} multi={ex['multi']} template={ex['template']}: wrote {ex['header']!r} for notice {ex['requested_notice']!r} / contributor {ex['contributor']!r}, read back {ex['read_back']}", w

    xh.settle(ctx, conds, confirm)
    return {"level": "model_checking", "exhaustive": True, "trusted_base": ["CrossHair 0.0.110 + z3", "vf/pyre.py", "template model (validated)"]}
