"""C08 — annotate changes nothing but the header."""
from .. import pyre_validate, xh
from . import hdr_common as hc

FILES = ["src/reuse/header.py", "src/reuse/_annotate.py", "src/reuse/comment.py", "src/reuse/extract.py"]


def replay(w):
    if "text" in w and w.get("harness") == "HDR.py::_file":
        # the BOM witness on a real temporary file through the real add_header_to_file
        import io
        import os
        import shutil
        import tempfile

        from reuse import ReuseInfo, _LICENSING
        from reuse._annotate import add_header_to_file

        d = tempfile.mkdtemp(prefix="vf-c08-")
        try:
            p = os.path.join(d, "f.py")
            with open(p, "w", encoding="utf-8", newline="") as fp:
                fp.write(w["text"])
            info = ReuseInfo(spdx_expressions={_LICENSING.parse("MIT")}, copyright_lines={"SPDX-FileCopyrightText: 2020 Jane Doe"})
            add_header_to_file(p, info, None, False, None, out=io.StringIO())
            with open(p, encoding="utf-8", newline="") as fp:
                out = fp.read()
            return w["text"].startswith("\ufeff") and not out.startswith("\ufeff")
        finally:
            shutil.rmtree(d, ignore_errors=True)
    return True  # other cases: the harness's oracle is re-run concretely; see confirm()


def run(ctx):
    n, bad = pyre_validate.validate(1500 if ctx.tier == "quick" else 6000, ctx.seed)
    if bad:
        ctx.harness_error(f"PYRE disagrees with re: {bad[:3]}")
        return {"level": "model_checking"}
    carve = sorted(ctx.known)
    conds = hc.conditions("_keep", ctx.tier, carve, replace_modes=(True, False))
    conds += file_conditions(ctx.tier, carve)
    for name, multi in (("PythonCommentStyle", False), ("CCommentStyle", True), ("HtmlCommentStyle", True), ("LispCommentStyle", False)):
        conds.append(xh.Cond(f"keep {name} multi={multi}: the existing header carries trailing blanks / tabs", "HDR.py", "_keep", {"style": name, "multi": multi, "replace": True, "nlines": 2, "old_kind": "trailing-ws", "carve": carve}, timeout=400 if ctx.tier == "quick" else 2000, twin="_keep_reach"))
    for name in ("PythonCommentStyle", "LispCommentStyle", "BatchFileCommentStyle"):
        conds.append(xh.Cond(f"keep {name}: a code line quotes the text of the (one-line) header that sits further down", "HDR.py", "_keep", {"style": name, "multi": False, "replace": True, "nlines": 3, "kinds": [2, 11, 6], "old_kind": "licence-only", "carve": carve}, timeout=400 if ctx.tier == "quick" else 2000, twin="_keep_reach"))
    for name in ("CCommentStyle", "HtmlCommentStyle", "CppCommentStyle"):
        conds.append(xh.Cond(f"keep {name} multi: the closing marker of an existing multi-line header shares its line with code", "HDR.py", "_keep", {"style": name, "multi": True, "replace": True, "nlines": 3, "kinds": [12, 2, 0], "carve": carve}, timeout=400 if ctx.tier == "quick" else 2000, twin="_keep_reach"))
    for name in ("CCommentStyle", "HtmlCommentStyle", "MlCommentStyle"):
        conds.append(xh.Cond(f"keep {name} multi: the holder contains the style's comment terminator in the middle of its text (refused, or written as exactly one comment)", "HDR.py", "_keep", {"style": name, "multi": True, "replace": True, "nlines": 2, "request": "terminator-inside", "carve": carve}, timeout=400 if ctx.tier == "quick" else 2000, twin="_keep_reach"))
    ctx.functions_encoded = ["reuse.comment.CommentStyle._create_comment_multi (premature terminator)", "reuse.header.find_and_replace_header / add_new_header / _find_first_spdx_comment / _extract_shebang / place_header", "reuse.comment.CommentStyle.comment_at_first_character", "reuse._annotate.add_header_to_file (read newline='', detect_line_endings, normalise, write with newline=line_ending) over an in-memory open", "reuse.extract.detect_line_endings"]
    ctx.bounds = dict(hc.BOUNDS, file_level="line ending in {LF, CRLF, CR} x final newline x BOM x 2-item bodies for 4 styles")
    ctx.stubs = hc.STUBS + ["builtins.open inside reuse._annotate replaced by an in-memory file with Python's documented newline translation"]
    ctx.outside = ["files mixing line-ending conventions", "bodies longer than the bound"]
    ctx.assumptions = [f"PYRE == re on {n} comparisons this run", "oracle: the non-blank lines of the output are the non-blank lines of the input, in order, with exactly one contiguous block - the new header - inserted, and possibly the first comment block holding REUSE information (minus shebang lines) removed"]

    def confirm(c, ex):
        if not ex.get("why"):
            return None
        if ex["why"] == "byte order mark no longer first":
            return "bom-not-first", f"{ex['style']}: input {ex['text']!r} -> output {ex['output']!r}", {"harness": "HDR.py::_file", "text": ex["text"]}
        return f"{c.func}:{ex['style']}:{ex.get('multi')}:{ex.get('body')}:{ex['why'][:40]}", f"{ex['style']} multi={ex.get('multi')} replace={ex.get('replace')} body={ex.get('body')}: {ex['why']} {ex.get('detail')}; input {ex['text']!r} output {ex['output']!r}", {"harness": c.func, "explain": ex}

    xh.settle(ctx, conds, confirm)
    return {"level": "model_checking", "exhaustive": True, "trusted_base": ["CrossHair 0.0.110 + z3", "vf/pyre.py", "reference decomposition in vf/harness/HDR.py::keep_story"]}


def file_conditions(tier, carve):
    conds = []
    for name, multi, ext in (("PythonCommentStyle", False, ".py"), ("CCommentStyle", True, ".c"), ("HtmlCommentStyle", True, ".html"), ("EmptyCommentStyle", False, ".license")):
        conds.append(xh.Cond(f"file level {name}: line endings, BOM, final newline", "HDR.py", "_file", {"style": name, "multi": multi, "nlines": 2, "ext": ext, "carve": carve}, timeout=400 if tier == "quick" else 2000, twin="_file_reach"))
    return conds
