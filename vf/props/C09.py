"""C09 — annotate accumulates information and never drops any (one step from any state the tool can have written)."""
from .. import pyre_validate, xh
from . import hdr_common as hc

FILES = ["src/reuse/header.py", "src/reuse/__init__.py", "src/reuse/copyright.py", "src/reuse/_annotate.py", "src/reuse/extract.py"]


def _read(text):
    from reuse.extract import extract_reuse_info

    i = extract_reuse_info(text)
    return set(i.copyright_lines), {str(e) for e in i.spdx_expressions}, set(i.contributor_lines)


def replay(w):
    try:
        before = _read(w["text"])
        out = hc.annotate_real(w["text"], w["style"], w["multi"], w.get("replace", True), w.get("merge", False), request=w.get("request", "full"))
        after = _read(out)
    except Exception:  # noqa
        return True
    twin = w.get("request") == "case-twin"
    want_c = before[0] | {"SPDX-FileCopyrightText: 2019 OLD HOLDER" if twin else "Portions Copyright 2019 Jane Doe" if w.get("request") == "verbatim-notice" else "SPDX-FileCopyrightText: 2020 Jane Doe"}

    def holders(notices):
        from reuse.extract import _COPYRIGHT_PATTERNS

        out = {}
        for n in notices:
            for p in _COPYRIGHT_PATTERNS:
                m = p.search(n)
                if m is not None:
                    g = m.groupdict()
                    y = g["year"]
                    ys = [] if not y else ([y] if len(y) == 4 else [y[:4], y[-4:]])
                    out.setdefault(g["statement"], []).extend(ys)
                    break
        return out

    if w.get("merge"):
        hb, ha = holders(want_c), holders(after[0])
        ok_c = all(h in ha for h in hb) and all((not ys) or (ha[h] and min(ha[h]) <= min(ys) and max(ha[h]) >= max(ys)) for h, ys in hb.items())
    else:
        ok_c = want_c <= after[0]
    if w.get("request") == "verbatim-notice":
        return not (ok_c and before[1] <= after[1] and before[2] <= after[2])
    ok = ok_c and (before[1] | {"GPL-3.0-or-later"}) <= after[1] and (before[2] | {"OLD CONTRIBUTOR" if twin else "Alice Example"}) <= after[2]
    return not ok


def run(ctx):
    n, bad = pyre_validate.validate(1500 if ctx.tier == "quick" else 6000, ctx.seed)
    if bad:
        ctx.harness_error(f"PYRE disagrees with re: {bad[:3]}")
        return {"level": "model_checking"}
    carve = sorted(ctx.known)
    conds = hc.conditions("_acc", ctx.tier, carve, replace_modes=(True, False), merge_modes=(False,))
    conds += hc.conditions("_acc", ctx.tier, carve, replace_modes=(True,) if ctx.tier == "quick" else (True, False), merge_modes=(True,))
    for name, multi in (("PythonCommentStyle", False), ("CCommentStyle", True), ("HtmlCommentStyle", True)):
        conds.append(xh.Cond(f"acc {name} multi={multi} --merge-copyrights onto a header that already states a spaced year range for the same holder", "HDR.py", "_acc", {"style": name, "multi": multi, "replace": True, "merge": True, "nlines": 2, "old_same_holder": True, "carve": carve}, timeout=400 if ctx.tier == "quick" else 2000, twin="_acc_reach"))
    for name, multi in (("PythonCommentStyle", False), ("CCommentStyle", True), ("EmptyCommentStyle", False), ("HtmlCommentStyle", True)):
        for old in ("contributor-only", "trailing-ws"):
            conds.append(xh.Cond(f"acc {name} multi={multi} onto an existing header of kind '{old}'", "HDR.py", "_acc", {"style": name, "multi": multi, "replace": True, "nlines": 2, "old_kind": old, "carve": carve}, timeout=400 if ctx.tier == "quick" else 2000, twin="_acc_reach"))
    for name, multi in (("PythonCommentStyle", False), ("CCommentStyle", True), ("HtmlCommentStyle", True)):
        conds.append(xh.Cond(f"acc {name} multi={multi}: the request differs from what the file declares only in letter case (holder, contributor)", "HDR.py", "_acc", {"style": name, "multi": multi, "replace": True, "nlines": 2, "request": "case-twin", "carve": carve}, timeout=400 if ctx.tier == "quick" else 2000, twin="_acc_reach"))
    for name, multi in (("PythonCommentStyle", False), ("CCommentStyle", True)):
        conds.append(xh.Cond(f"acc {name} multi={multi} --merge-copyrights: the requested notice is kept verbatim and has text in front of its copyright word", "HDR.py", "_acc", {"style": name, "multi": multi, "replace": True, "merge": True, "nlines": 2, "request": "verbatim-notice", "carve": carve}, timeout=400 if ctx.tier == "quick" else 2000, twin="_acc_reach"))
    ctx.functions_encoded = ["reuse.templates.default_template.jinja2 (rendered by the real Jinja environment)", "reuse.header.create_header (existing info extracted from the found header and unioned), find_and_replace_header, add_new_header", "reuse.ReuseInfo.union / copy", "reuse.copyright.merge_copyright_lines (with --merge-copyrights)", "reuse.header._create_new_header post-condition"]
    ctx.bounds = dict(hc.BOUNDS, step="ONE annotate step from any pre-state in the bound - incl. a header the tool wrote earlier (top, middle, after a shebang) - in replace and --no-replace mode, with and without --merge-copyrights; the post-state is again a tool-written header, so one step covers sequences of such steps")
    ctx.stubs = hc.STUBS
    ctx.outside = ["headers hand-edited into shapes neither the writer nor the generated bodies produce", "year-range arithmetic of --merge-copyrights (C20)", "--skip-existing (C11's file-level model)"]
    ctx.assumptions = [f"PYRE == re on {n} comparisons this run"]

    def confirm(c, ex):
        w = {"text": ex["text"], "style": ex["style"], "multi": ex["multi"], "replace": ex["replace"], "merge": ex["merge"], "request": c.params.get("request", "full")}
        if not replay(w):
            return None
        return f"acc:{ex['style']}:{ex['multi']}:{ex['replace']}:{ex['body']}", f"{ex['style']} multi={ex['multi']} replace={ex['replace']} merge={ex['merge']} body={ex['body']}: {ex['why']} (before {ex['declared_before']}, after {ex['declared_after']})", w

    xh.settle(ctx, conds, confirm)
    return {"level": "model_checking", "exhaustive": True, "trusted_base": ["CrossHair 0.0.110 + z3", "vf/pyre.py"]}
