"""C10 — re-running annotate with the same arguments changes nothing.

XH: f = find_and_replace_header(., info, style, force_multi) with the real create_header and reader;
obligation f(f(t)) == f(t) for every body in the bound."""
from .. import pyre_validate, xh
from . import hdr_common as hc

FILES = ["src/reuse/header.py", "src/reuse/comment.py", "src/reuse/extract.py", "src/reuse/_annotate.py"]


def replay(w):
    if w.get("harness"):
        return True  # order witnesses are re-run by the harness itself (concrete())
    try:
        once = hc.annotate_real(w["text"], w["style"], w["multi"], merge=w.get("merge", False), request=w.get("request", "full"))
        twice = hc.annotate_real(once, w["style"], w["multi"], merge=w.get("merge", False), request=w.get("request", "full"))
    except Exception:  # noqa
        return True
    return once != twice


def run(ctx):
    n, bad = pyre_validate.validate(1500 if ctx.tier == "quick" else 6000, ctx.seed)
    if bad:
        ctx.harness_error(f"PYRE disagrees with re: {bad[:3]}")
        return {"level": "model_checking"}
    carve = sorted(ctx.known)
    conds = hc.conditions("_idem", ctx.tier, carve)
    # requests that carry only one kind of information (a header holding only contributors must be found again too)
    for name, multi in (("PythonCommentStyle", False), ("CCommentStyle", True), ("HtmlCommentStyle", True), ("LispCommentStyle", False)):
        for req in ("contributor-only", "licence-only", "copyright-only"):
            conds.append(xh.Cond(f"idem {name} multi={multi} request={req} body=2 lines", "HDR.py", "_idem", {"style": name, "multi": multi, "replace": True, "nlines": 2, "request": req, "carve": carve}, timeout=400 if ctx.tier == "quick" else 2000, twin="_idem_reach"))
    for name, multi in (("PythonCommentStyle", False), ("CCommentStyle", True), ("HtmlCommentStyle", True)):
        conds.append(xh.Cond(f"idem {name} multi={multi}: an existing header of more than 4 KiB (80 holders) is found again", "HDR.py", "_idem", {"style": name, "multi": multi, "replace": True, "nlines": 2, "kinds": [2, 8, 10], "first": 10, "carve": carve}, timeout=400 if ctx.tier == "quick" else 2000, twin="_idem_reach"))
    # --year given twice with --merge-copyrights: the range the first run writes must be the one the merge re-creates
    for name, multi in (("PythonCommentStyle", False), ("CCommentStyle", True)):
        for merge in (True, False):
            conds.append(xh.Cond(f"idem {name} multi={multi} merge={merge} request=two --year options body=2 lines", "HDR.py", "_idem", {"style": name, "multi": multi, "replace": True, "merge": merge, "nlines": 2, "request": "two-years", "carve": carve}, timeout=400 if ctx.tier == "quick" else 2000, twin="_idem_reach"))
    # the second run happens in another process: the iteration order of the requested sets must not show in the header
    for name, multi in (("PythonCommentStyle", False), ("CCommentStyle", True), ("HtmlCommentStyle", True)):
        conds.append(xh.Cond(f"header independent of set iteration order ({name} multi={multi}; holders / contributors differing only in case)", "HDR.py", "_order", {"style": name, "multi": multi}, timeout=400 if ctx.tier == "quick" else 2000, twin="_order_reach"))
    ctx.functions_encoded = ["reuse.cli.annotate.get_year, reuse.copyright.make_copyright_line / merge_copyright_lines (request with two --year options)", "reuse.header.find_and_replace_header, create_header, _create_new_header, _find_first_spdx_comment, _indices_of_newlines, _extract_shebang, place_header", "reuse.comment.CommentStyle.comment_at_first_character / create_comment (every style)", "reuse.extract.contains_reuse_info / extract_reuse_info"]
    ctx.bounds = dict(hc.BOUNDS)
    ctx.stubs = hc.STUBS
    ctx.outside = ["--no-replace (stacking a new header is that option's documented meaning)", "custom templates, --force-dot-license plumbing (C11), prefixes/years other than the concrete request", "bodies longer than the bound; bodies that already hold foreign REUSE tags"]
    ctx.assumptions = [f"PYRE == re on {n} comparisons this run", "after the solver fixes the body shape the text is concrete: the solver contributes exhaustive exploration of the shape space"]

    def confirm(c, ex):
        if c.func == "_order":
            return f"set-order:{ex['style']}:{ex['kind']}:{ex['lines']}", f"{ex['style']}: {ex['kind']} {ex['lines']}: {ex['why']}; {ex['header_in_one_order']!r} vs {ex['header_in_the_other_order']!r}", {"harness": "HDR.py::_order", "explain": ex}
        w = {"merge": bool(c.params.get("merge", False)), "text": ex["text"], "style": ex["style"], "multi": ex["multi"], "request": ex.get("request", "full")}
        if not replay(w):
            return None
        key = ex.get("known_key") or f"idem:{ex['style']}:{ex['multi']}:{ex['body']}"
        return key, f"{ex['style']} multi={ex['multi']} body={ex['body']}: {ex['why']}; first run {ex['after_first_run']!r}, second run {ex['after_second_run']!r}", w

    xh.settle(ctx, conds, confirm)
    return {"level": "model_checking", "exhaustive": True, "trusted_base": ["CrossHair 0.0.110 + z3", "vf/pyre.py"]}
