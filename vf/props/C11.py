"""C11 — a failed annotation leaves the tree as it was and shows in the exit status.

XH over the real `annotate` command body and add_header_to_file on a file-system model, with header
construction as a fault point (per path: ok / CommentCreateError / MissingReuseInfoError)."""
from .. import xh

FILES = ["src/reuse/_annotate.py", "src/reuse/cli/annotate.py", "src/reuse/header.py", "src/reuse/comment.py", "src/reuse/cli/common.py"]


def replay(w):
    """The listed finding on a real temporary project through the real CLI."""
    import os
    import shutil
    import tempfile

    from click.testing import CliRunner

    from reuse.cli.main import main

    d = tempfile.mkdtemp(prefix="vf-c11-")
    cwd = os.getcwd()
    try:
        os.makedirs(os.path.join(d, ".reuse", "templates"))
        with open(os.path.join(d, ".reuse", "templates", "empty.jinja2"), "w") as fp:
            fp.write("nothing to see here\n")
        with open(os.path.join(d, "a.py"), "w") as fp:
            fp.write("x = 1\n")
        os.chdir(d)
        r = CliRunner().invoke(main, ["--root", d, "annotate", "--force-dot-license", "--template", "empty", "-c", "Jane Doe", "-l", "MIT", "--exclude-year", "a.py"])
        return r.exit_code == 1 and os.path.exists(os.path.join(d, "a.py.license"))
    finally:
        os.chdir(cwd)
        shutil.rmtree(d, ignore_errors=True)


def run(ctx):
    tier = ctx.tier
    carve = sorted(ctx.known)
    # regression obligation on the real CLI (concrete): the repaired defect must stay repaired
    still = replay({})
    if still:
        ctx.violation("license-sibling-created-before-failure", "annotate --force-dot-license with a template that renders nothing exits 1 and leaves a new empty a.py.license behind", {"cli": "annotate --force-dot-license --template empty a.py"})
    ctx.ob("real CLI: a failed --force-dot-license annotation leaves no new .license file", "concrete", "violated" if still else "holds")
    conds = []
    tmo = 500 if tier == "quick" else 3000
    combos = [(m, "none") for m in ("none", "style", "force_dot_license", "fallback_dot_license", "skip_unrecognised")] + [("none", "single"), ("none", "multi"), ("style", "single"), ("style", "multi")]
    if tier == "thorough":
        combos += [(m, l) for m in ("force_dot_license", "fallback_dot_license", "skip_unrecognised") for l in ("single", "multi")]
    exts = [".py", ".xyz", ".json", ".png", ".c (binary content)"]
    for mode, lines in combos:
        for fe in range(5):
            extra = {"outcomes": [0, 1], "fix_replace": True} if (tier == "quick" and lines != "none") else ({"fix_replace": True} if tier == "quick" else {})
            conds.append(xh.Cond(f"annotate two paths (first is {exts[fe]}), option={mode}, line handling={lines}", "ANN.py", "_ann", dict({"npaths": 2, "mode": mode, "lines": lines, "first_ext": fe, "carve": carve}, **extra), timeout=tmo, twin="_ann_reach"))
    # a forced style that does not support the requested line handling although the files' own style does
    for forced, lines in (("html", "single"), ("python", "multi"), ("c", "single")):
        conds.append(xh.Cond(f"annotate two paths, --style {forced} with line handling={lines} (must be refused before anything is touched)", "ANN.py", "_ann", {"npaths": 2, "mode": "style", "forced_style": forced, "lines": lines, "outcomes": [0, 1], "fix_replace": True, "carve": carve}, timeout=tmo, twin="_ann_reach"))
    ctx.functions_encoded = [
        "reuse.cli.annotate.annotate (command body: all_paths, verify_paths_comment_style, verify_paths_line_handling, per-path loop, touch of .license, exit status)",
        "reuse._annotate.add_header_to_file (style selection, fallback .license, read, skip_existing, try/except, write-back)",
    ]
    ctx.bounds = {
        "invocation": "2 paths; each: type in {recognised .py, unrecognised .xyz, uncommentable .json, binary .png, binary content under the recognised name .c} x pre-existing .license sibling? x header construction outcome in {ok, CommentCreateError, MissingReuseInfoError}; --skip-existing, --no-replace; one of {no style option, --style, --force-dot-license, --fallback-dot-license, --skip-unrecognised}; line handling in {none, --single-line, --multi-line}",
    }
    ctx.stubs = ["pathlib.Path inside reuse.cli.annotate / reuse._util and open inside reuse._annotate replaced by a dict-backed model", "is_binary by extension", "find_and_replace_header / add_new_header replaced by a fault point (raise the chosen error or return 'HEADER' + text)", "click's own option parsing (mutually exclusive options are rejected before the body runs)"]
    ctx.outside = ["more than two paths", "real OS errors (permissions, disk full)", "which concrete inputs make header construction fail (C07)"]
    ctx.assumptions = ["oracle written from the statement: a failing path and its .license sibling are byte-identical before and after (none created), every other path is processed, exit status is 1 iff some path failed, usage errors leave the model untouched"]

    def confirm(c, ex):
        key = ex.get("known_key") or f"annotate:{ex['mode']}:{ex['lines']}:{ex['why'][:50]}"
        return key, f"option={ex['mode']} lines={ex['lines']} paths={ex['paths']} skip_existing={ex['skip_existing']}: {ex['why']} (exit {ex['exit']}; before {ex['before']}; after {ex['after']})", {"harness": "ANN.py::_ann", "explain": ex}

    xh.settle(ctx, conds, confirm)
    return {"level": "model_checking", "exhaustive": True, "trusted_base": ["CrossHair 0.0.110 + z3", "file-system model"]}
