"""C12 — ignore blocks hide exactly what they enclose.

XH on the real filter_ignore_block (texts assembled from START / END markers and
free chunks) against a reference scanner, and on the real extract_reuse_info over
token sequences (markers, tags, text, newline)."""
import itertools

from .. import xh

FILES = ["src/reuse/extract.py"]


def replay(w):
    from reuse.extract import extract_reuse_info, filter_ignore_block

    if "expected_filtered" in w:
        return filter_ignore_block(w["text"]) != w["expected_filtered"]
    info = extract_reuse_info(w["text"])
    got = [sorted(str(e) for e in info.spdx_expressions), sorted(info.copyright_lines), sorted(info.contributor_lines)]
    return got != w["expected"]


def shapes(maxlen):
    for n in range(1, maxlen + 1):
        for tup in itertools.product("SEC", repeat=n):
            s = "".join(tup)
            if "CC" in s or "S" not in s and "E" not in s:
                continue
            yield s


def run(ctx):
    tier = ctx.tier
    maxseg = 4 if tier == "quick" else 5
    chunk = 1 if tier == "quick" else 2
    tmo = 100 if tier == "quick" else 900
    conds = []
    for s in shapes(maxseg):
        if s.count("C") > 4:
            continue
        conds.append(xh.Cond(f"filter shape={s} chunk<={chunk}", "C12.py", "_ob", {"shape": s, "chunk": chunk}, timeout=tmo))
    # deeper chunks on the shorter shapes
    if tier == "quick":
        for s in shapes(3):
            conds.append(xh.Cond(f"filter shape={s} chunk<=2", "C12.py", "_ob", {"shape": s, "chunk": 2}, timeout=tmo))
    ntok = 4 if tier == "quick" else 5
    for first in ["S", "E", "L", "P", "F", "T", "N"]:
        conds.append(
            xh.Cond(f"compose ntok={ntok} first={first}", "C12.py", "_comp", {"ntok": ntok, "first": first}, timeout=tmo * 2, twin="_comp_reach")
        )
    ctx.functions_encoded = ["reuse.extract.filter_ignore_block (symbolically executed)", "reuse.extract.extract_reuse_info (symbolically executed over token sequences; regexes run on per-path concrete text)"]
    ctx.bounds = {
        "filter": f"every shape over {{START,END,chunk}} with 1..{maxseg} segments (no two adjacent chunks), every chunk a free string of length <= {chunk}" + (" (<=2 for shapes up to 3 segments)" if tier == "quick" else ""),
        "compose": f"every sequence of {ntok} tokens over {{start,end,licence tag,copyright tag,contributor tag,text,newline}}",
    }
    ctx.outside = [
        "texts with more segments than the bound; marker fragments straddling chunk boundaries longer than the chunk bound",
        "a marker that follows a tag on the same line (it is then part of the tag's value; C02's domain)",
    ]
    ctx.assumptions = ["reference scanner in vf/harness/C12.py::ref is the statement's meaning of 'block'", "CrossHair's str model (find/index/in/slicing) is sound"]

    def confirm(c, ex):
        if c.func == "_ob":
            w = {"text": ex["text"], "expected_filtered": ex["expected"]}
            if not replay(w):
                return None
            t = ex["text"]
            key = "offset0" if t.startswith("REUSE-IgnoreStart") else f"shape:{c.params['shape']}"
            return key, f"filter_ignore_block({t!r}) returned {ex['got']!r}, expected {ex['expected']!r}", w
        w = {"text": ex["text"], "expected": ex["expected"]}
        if not replay(w):
            return None
        return f"compose:{''.join(ex['kinds'])}", f"extract_reuse_info on tokens {ex['kinds']} does not yield {ex['expected']}", w

    xh.settle(ctx, conds, confirm)
    return {"level": "model_checking", "exhaustive": True, "trusted_base": ["CrossHair 0.0.110 + z3", "reference scanner"]}
