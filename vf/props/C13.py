"""C13 — every lint output format and lint-file tell the same story as the exit status.

XH over the real format_plain / format_json / format_lines / format_lines_subset, to_dict_lint,
the lint and lint-file command bodies and ProjectSubsetReport, on symbolic project states;
each format's text is parsed back (parsers in vf/harness/REP.py) and compared."""
from .. import xh
from . import C06

FILES = ["src/reuse/lint.py", "src/reuse/report.py", "src/reuse/cli/lint.py", "src/reuse/cli/lint_file.py"]


def replay(w):
    return True  # re-run by the harness itself (formatters are pure functions of the report)


def run(ctx):
    tier = ctx.tier
    tmo = 500 if tier == "quick" else 1800
    conds = []
    shapes = [(e, cop, err) for e in (0, 1, 5) for cop in (False, True) for err in (False, True) if not (err and not cop)]
    forms = [0, 1] if tier == "quick" else [0, 1, 3]
    for e, cop, err in shapes:
        conds.append(
            xh.Cond(
                f"formats: first=(expr#{e},copyright={cop},read_error={err}) x second free x LICENSES{{MIT,GPL-3.0,Foo}} in {forms}",
                "REP.py", "_fmt",
                {"nfiles": 2, "exprs": [0, 1, 5, 7, 8], "prov_ids": ["MIT", "GPL-3.0", "Foo"], "forms": forms, "fix": {"file0": [err, cop, e]}},
                timeout=tmo, twin="_fmt_reach",
            )
        )
        conds.append(
            xh.Cond(
                f"lint-file: first=(expr#{e},copyright={cop},read_error={err}) x second free x LICENSES{{MIT}} x every subset F (incl. a non-covered file)",
                "REP.py", "_lf",
                {"nfiles": 2, "exprs": [0, 1, 7], "prov_ids": ["MIT"], "forms": [0, 1], "fix": {"file0": [err, cop, e]}},
                timeout=tmo, twin="_lf_reach",
            )
        )
    conds.append(xh.Cond("lint-file restricted to F examines what lint examines, intersected with F, under every include option and VCS answer", "C03.py", "_subsetflags", {}, timeout=tmo, twin="_subsetflags_reach"))
    conds.append(xh.Cond("lint-file: the files named on the command line are the ones examined, from any working directory, however root and files are spelled", "C03.py", "_lintfile", {}, timeout=tmo, twin="_lintfile_reach"))
    ctx.functions_encoded = [
        "reuse.cli.lint_file.lint_file path handling + reuse.covered_files.iter_files with subset_files, over a path algebra with a working directory (resolve() collapses '..', absolute() does not; no symlinks)",
        "reuse.lint.format_plain / format_json / format_lines / format_lines_subset",
        "reuse.report.ProjectReport.to_dict_lint, ProjectSubsetReport.generate / is_compliant / files_without_*",
        "reuse.cli.lint.lint and reuse.cli.lint_file.lint_file (command bodies: output selection, exit status)",
    ]
    ctx.bounds = {
        "project state": "2 covered files (names with a blank and a non-ASCII letter), per file expression in {none, MIT, Foo, MIT AND Foo, (MIT OR GPL-3.0)} x copyright x read error; LICENSES: MIT, GPL-3.0, Foo each in {absent, ID.txt" + (", ID" if tier != "quick" else "") + "}",
        "lint-file": "every subset F of the two covered files plus one non-covered file",
        "lint-file spelling": "3 working directories (root, two sub-directories) x 2-3 spellings of the root from there x 4 spellings of an existing file (relative, './', '..', absolute)",
    }
    ctx.stubs = ["as C01/C06 (reuse_info_of, listing, echo captured)", "the parsers of the three text formats run natively"]
    ctx.outside = ["symbolic links in the spelling of F or of the root; the real OS's pathlib (the spelling obligation runs on a path algebra)", "json.dumps itself (CrossHair substitutes a pure-Python encoder; values are concrete)", "more than 2 items per category"]
    ctx.assumptions = ["after the solver has fixed a project state every value is concrete: the solver's part is exhaustive exploration of the state space"]

    def confirm(c, ex):
        if c.func == "_subsetflags":
            return f"lint-vs-lint-file:{ex['dir']}:{ex['include_submodules']}:{ex['include_meson_subprojects']}", f"lint examines {ex['lint_examines']}, lint-file with every file named {ex['lint_file_all_named']}, with only h.py named {ex['lint_file_only_h']} ({ex})", {"harness": "C03.py::_subsetflags", "explain": ex}
        if c.func == "_lintfile":
            return f"lint-file-spelling:{ex['cwd']}:{ex['root']}:{ex['named']}", f"lint-file {ex['named']!r} from {ex['cwd']} with root {ex['root']!r}: {ex['outcome']}, examined {ex['examined']}, expected {ex['expected']}", {"harness": "C03.py::_lintfile", "explain": ex}
        story = ex.get("story")
        if not story:
            return None
        key = f"{c.func}:" + story[:60]
        return key, f"{story} :: files={ex['files']} LICENSES={ex['licenses_dir']}" + (f" F={ex.get('F')}" if "F" in ex else ""), {"harness": c.func, "explain": ex}

    xh.settle(ctx, conds, confirm)
    return {"level": "model_checking", "exhaustive": True, "trusted_base": ["CrossHair 0.0.110 + z3", "format parsers in vf/harness/REP.py"]}
