"""C14 — results do not depend on scheduling, enumeration order or root spelling (partial).

(1) string-hash seed -> comment-terminator pattern: the `(?:X)*` groups of the real _END_PATTERN
    are harvested; z3 decides for every pair whether L(X*Y*) = L(Y*X*) (then every order gives the
    same language); the module is also imported under several PYTHONHASHSEED values and, if two
    pattern texts differ, z3 produces a line on which their languages differ, replayed through
    extract_reuse_info under both seeds.
(2) enumeration / completion order: XH over ProjectReport.generate + Project._find_licenses with the
    file order and the LICENSES listing order permuted, and over NestedReuseTOML with reuse_tomls
    permuted: the normalised results are equal."""
import itertools
import json
import os
import subprocess
import sys
import time

import z3

from .. import re2z3 as R
from .. import xh
from ..re2z3 import sc, sp

FILES = ["src/reuse/extract.py", "src/reuse/report.py", "src/reuse/global_licensing.py", "src/reuse/project.py", "src/reuse/comment.py"]
REPO_SRC = os.path.join(os.environ.get("VERIF_REPO", "/repo"), "src")


def end_groups(pattern_text):
    """-> list of (source text of group body, z3 regex of body) for `(?:X)*(?:Y)*...$`."""
    items = list(sp.parse(pattern_text))
    if not items or items[-1][0] is not sc.AT:
        raise R.Unsupported("_END_PATTERN does not end in $")
    groups = []
    for op, av in items[:-1]:
        if op not in (sc.MAX_REPEAT, sc.MIN_REPEAT) or av[0] != 0 or av[1] is not sc.MAXREPEAT:
            raise R.Unsupported(f"unexpected item {op} in _END_PATTERN")
        body = R.Conv(0).seq(av[2])
        groups.append(body)
    return groups


def seed_pattern(seed):
    """(_END_PATTERN text, licence pattern text) of a fresh interpreter under PYTHONHASHSEED=seed."""
    env = dict(os.environ, PYTHONHASHSEED=str(seed))
    code = f"import sys; sys.path.insert(0, {REPO_SRC!r}); import logging; logging.disable(50); from reuse import extract as e; import json; print(json.dumps([e._END_PATTERN, e._LICENSE_IDENTIFIER_PATTERN.pattern]))"
    p = subprocess.run([sys.executable, "-c", code], capture_output=True, text=True, env=env, timeout=120)
    return json.loads(p.stdout.strip().splitlines()[-1])


def extract_under_seed(seed, text):
    env = dict(os.environ, PYTHONHASHSEED=str(seed))
    code = (
        f"import sys; sys.path.insert(0, {REPO_SRC!r}); import logging; logging.disable(50)\n"
        "from reuse.extract import extract_reuse_info; import json\n"
        f"t = {text!r}\n"
        "try:\n"
        "    i = extract_reuse_info(t); print(json.dumps(['ok', sorted(map(str, i.spdx_expressions)), sorted(i.copyright_lines), sorted(i.contributor_lines)]))\n"
        "except Exception as e:\n"
        "    print(json.dumps(['raises', type(e).__name__]))\n"
    )
    p = subprocess.run([sys.executable, "-c", code], capture_output=True, text=True, env=env, timeout=120)
    return json.loads(p.stdout.strip().splitlines()[-1])


def replay(w):
    if "seeds" in w:
        a = extract_under_seed(w["seeds"][0], w["text"])
        b = extract_under_seed(w["seeds"][1], w["text"])
        return a != b
    return True


def run(ctx):
    from reuse import extract as ex

    tier = ctx.tier
    q = R.Q()
    NOLF = z3.Star(R._ranges_to_re(R._negate_ranges([(10, 10)])))
    # ---- (1a) pairwise commutation of the terminator groups
    t0 = time.time()
    groups = end_groups(ex._END_PATTERN)
    ctx.extra["end_groups"] = len(groups)
    noncommuting = []
    for (i, x), (j, y) in itertools.combinations(enumerate(groups), 2):
        a = z3.Concat(z3.Star(x), z3.Star(y))
        b = z3.Concat(z3.Star(y), z3.Star(x))
        r1, w1 = q.diff(a, b, NOLF)
        r2, w2 = q.diff(b, a, NOLF)
        if r1 == "unsat" and r2 == "unsat":
            continue
        if "unknown" in (r1, r2):
            ctx.ob(f"commute groups {i},{j}", "RZ3", "inconclusive", detail="unknown")
            continue
        noncommuting.append((i, j, w1 or w2))
    ctx.extra["noncommuting_pairs"] = len(noncommuting)
    ctx.extra["noncommuting_sample"] = [list(x) for x in noncommuting[:5]]
    # ---- (1b) the pattern text under different hash seeds
    seeds = [0, 1, 2, 3, 4, 5, 6, 7] if tier == "quick" else list(range(24))
    if ctx.seed not in seeds:
        seeds.append(ctx.seed)
    pats = {}
    for s in seeds:
        try:
            pats[s] = seed_pattern(s)
        except Exception as e:  # noqa
            ctx.harness_error(f"cannot import reuse.extract under PYTHONHASHSEED={s}: {e!r}")
    texts = {}
    for s, (endp, licp) in pats.items():
        texts.setdefault(endp, []).append(s)
    ctx.extra["distinct_end_patterns_over_seeds"] = len(texts)
    verdict, detail = "holds", None
    if len(texts) > 1:
        # order depends on the seed: is there a line on which two of the END languages differ?
        reps = [v[0] for v in texts.values()]
        found = False
        for s1, s2 in itertools.combinations(reps, 2):
            try:
                l1 = R.concat([z3.Star(g) for g in end_groups(pats[s1][0])])
                l2 = R.concat([z3.Star(g) for g in end_groups(pats[s2][0])])
            except R.Unsupported as e:
                verdict, detail = "inconclusive", str(e)
                continue
            for a, b in ((l1, l2), (l2, l1)):
                r, w = q.diff(a, b, NOLF)
                if r != "sat":
                    if r != "unsat":
                        verdict = "inconclusive"
                    continue
                text = "SPDX-License-Identifier: MIT" + w + "\n"
                wit = {"seeds": [s1, s2], "text": text}
                if replay(wit):
                    found = True
                    st = ctx.violation("hash-seed-end-pattern", f"under PYTHONHASHSEED={s1} and {s2} the terminator pattern differs and {text!r} is read differently: {extract_under_seed(s1, text)} vs {extract_under_seed(s2, text)}", wit)
                    verdict = "violated" if st == "violated" else "known"
                    detail = f"seeds {s1},{s2} text {text!r}"
                    break
            if found:
                break
        if not found and verdict == "holds":
            detail = "pattern text varies with the seed but the languages are equal (groups commute)"
    ctx.ob(
        f"terminator pattern independent of the string hash seed ({len(seeds)} seeds; {len(groups)} groups, {len(noncommuting)} non-commuting pairs)",
        "RZ3",
        verdict,
        secs=time.time() - t0,
        detail=detail,
        queries=q.n,
        sample={"groups": len(groups), "noncommuting_pairs": len(noncommuting), "distinct_pattern_texts": len(texts), "seeds": seeds},
    )
    if not noncommuting:
        ctx.ob("all terminator groups commute pairwise: every order yields the same language", "RZ3", "holds", queries=0)

    # ---- (2) enumeration order
    conds = []
    tmo = 400 if tier == "quick" else 1500
    for pf in range(1, 6):
        conds.append(xh.Cond(f"report independent of file order perm#{pf} and LICENSES listing order", "REP.py", "_perm", {"exprs": [0, 1, 5] if tier == "quick" else [0, 1, 2, 5, 7], "fix": {"pf": pf}, "listing_variants": [0, 1, 2] if tier == "quick" else [0, 1, 2, 3, 4, 5]}, timeout=tmo, twin="_perm_reach"))
    for l0 in range(13):
        conds.append(xh.Cond(f"NestedReuseTOML independent of reuse_tomls order (root shape #{l0})", "C04.py", "_order", {"levels": [l0, None, None], "own_n": 2 if tier == "quick" else 4, "perms": [1, 2, 5] if tier == "quick" else [1, 2, 3, 4, 5]}, timeout=tmo, twin="_order_reach"))

    for r, sp in enumerate(["/proj", ".", "proj", "../proj", "./proj/../proj"]):
        if r == 0:
            continue
        conds.append(xh.Cond(f"NestedReuseTOML independent of the spelling of the root ({sp!r} vs absolute), nested directory names incl. ones sorting before '.'", "C04.py", "_spell", {"r": r}, timeout=tmo, twin="_spell_reach"))

    conds.append(xh.Cond("lint-file: the files examined do not depend on how the root and the named files are spelled", "C03.py", "_subset", {}, timeout=tmo, twin="_subset_reach"))
    # serial run = one Project for the whole walk, pool = a fresh one per chunk: a look-up must not depend on earlier ones
    for l0 in (2, 3, 4) if tier == "quick" else range(1, 13):
        conds.append(xh.Cond(f"a look-up does not depend on the look-ups the same process did before (root shape #{l0}; files in the same and in another directory)", "C04.py", "_twice", {"levels": [l0, None, None], "carve": []}, timeout=tmo, twin="_twice_reach"))

    def confirm(c, ex):
        if c.func == "_subset":
            return f"subset-spelling:{ex['root']}:{ex['named_files']}", f"cwd {ex['cwd']}, root {ex['root']!r}, named files {ex['named_files']}: examined {ex['examined']}, expected {ex['expected']}", {"harness": "C03.py::_subset", "explain": ex}
        if c.func == "_twice":
            return f"history:{ex['levels']}:{ex['own_first']}:{ex['own_second']}", f"levels {ex['levels']}: after looking up a/b/f.py ({ex['own_first']}), a/b/g.py gives {ex['second']} (expected {ex['second_expected']}), c/h.py gives {ex['third(c/h.py)']} (expected {ex['third_expected']}), a/b/f.py again {ex['first_again']} (first time {ex['first']})", {"harness": "C04.py::_twice", "explain": ex}
        if c.func == "_spell":
            return f"root-spelling:{ex['root']}:{ex['dir']}", f"root spelled {ex['root']!r}, nested directory {ex['dir']!r}, levels {ex['levels']}: {ex['spelled_root']} instead of {ex['absolute_root']}", {"harness": "C04.py::_spell", "explain": ex}
        return f"{c.func}:{ex.get('file_order') or ex.get('order')}", f"{c.func}: identity order gives {ex['identity']}, permuted order gives {ex['permuted']} ({ {k: v for k, v in ex.items() if k not in ('identity', 'permuted')} })", {"harness": c.func, "explain": ex}

    xh.settle(ctx, conds, confirm)
    ctx.solver_time += q.secs
    ctx.functions_encoded = [
        "reuse.extract._END_PATTERN (groups harvested from the real pattern, z3 regex commutation)",
        "reuse.report.ProjectReport.generate / _generate_file_reports (file order permuted), reuse.project.Project._find_licenses (listing order permuted)",
        "reuse.global_licensing.NestedReuseTOML._find_relevant_tomls / reuse_info_of (reuse_tomls permuted)",
    ]
    ctx.bounds = {
        "hash seed": f"{len(seeds)} PYTHONHASHSEED values for the pattern text; pairwise commutation decided for lines of any length",
        "file order": "3 files x {none, MIT, Foo} (+ read error on one), all 6 orders, 3 listing orders of 3 LICENSES entries",
        "root spelling": "root given as '.', 'proj', '../proj', './proj/../proj' vs absolute; nested directory named a, +a, (a), -a, #a, _a, ~a; 13 x 13 table shapes",
        "look-up history": "three look-ups on one Project (a/b/f.py, a/b/g.py, c/h.py, a/b/f.py again), 2 nested REUSE.toml files of 13 shapes, own info in 4 kinds",
        "reuse_tomls order": "3 nested REUSE.toml files, each of 13 shapes, own info in 2 kinds, 3 generating permutations" + (" (thorough: 4 kinds, all permutations)" if tier == "quick" else ""),
    }
    ctx.outside = [
        "real process scheduling (mp.Pool), pickling and the per-worker dep5 re-parse",
        "real readdir order and the current working directory (OS level); root spelling is covered for the REUSE.toml hierarchy and for the lint-file subset walk (path algebra without symlinks)",
    ]
    ctx.assumptions = ["a set-assembled pattern can only vary by the order of its groups"]
    return {"level": "model_checking", "exhaustive": False, "trusted_base": ["z3 regex solver", "vf/re2z3.py", "CrossHair 0.0.110"]}
