"""C16 — malformed input yields a diagnostic and a defined exit status, never a crash.

XH over (a) ReuseTOML.from_dict on every TOML value shape of every key, (b) the
ClickObj.project error mapping, (c) the per-file exception funnel of
ProjectReport / ProjectSubsetReport.generate."""
import ast

from .. import xh

FILES = ["src/reuse/global_licensing.py", "src/reuse/cli/common.py", "src/reuse/report.py", "src/reuse/exceptions.py"]
KEYS = ["version", "annotations", "path", "precedence", "SPDX-FileCopyrightText", "SPDX-License-Identifier"]


def _outcome_from_toml(text):
    from reuse.exceptions import GlobalLicensingParseError
    from reuse.global_licensing import ReuseTOML

    try:
        ReuseTOML.from_toml(text, "sub/REUSE.toml")
        return "ok"
    except GlobalLicensingParseError as e:
        return "diagnostic" if e.source == "sub/REUSE.toml" else f"diagnostic-without-file({e.source!r})"
    except Exception as e:  # noqa
        return f"escaped:{type(e).__name__}"


def replay(w):
    if "toml" in w:
        return _outcome_from_toml(w["toml"]) not in ("ok", "diagnostic")
    return True  # funnel / project witnesses are re-run by the harness itself


def run(ctx):
    import datetime  # noqa

    import tomlkit

    tier = ctx.tier
    carve = sorted(ctx.known)
    tmo = 120 if tier == "quick" else 600
    conds = []
    for k in KEYS:
        conds.append(xh.Cond(f"from_dict focus={k}", "C16.py", "_ob", {"focus": k, "carve": carve}, timeout=tmo))
    for k in KEYS[2:]:
        conds.append(xh.Cond(f"from_dict focus=annotations[].{k}", "C16.py", "_ob", {"focus": "annotations", "inner_key": k, "carve": carve}, timeout=tmo))
    conds.append(xh.Cond("ClickObj.project error mapping", "C16.py", "_proj", {}, timeout=tmo, twin="_proj_reach"))
    conds.append(xh.Cond("from_toml: every exception class of tomlkit (subclasses of TOMLKitError, read from the installed library) raised by loads() becomes a parse error naming the file", "C16.py", "_tk", {}, timeout=tmo, twin="_tk_reach"))
    nf = 2 if tier == "quick" else 3
    for subset in (False, True):
        conds.append(xh.Cond(f"per-file exception funnel nfiles={nf} subset={subset}", "C16.py", "_funnel", {"nfiles": nf, "subset": subset}, timeout=tmo * 3, twin="_funnel_reach"))
    # the content of the files themselves
    conds.append(xh.Cond("annotate: content with unparseable expressions / undecodable bytes x style x options", "RD.py", "_rd", {}, timeout=tmo * 3, twin="_rd_reach"))
    conds.append(xh.Cond("spdx: undecodable LicenseRef- licence texts", "RD.py", "_bomrd", {}, timeout=tmo, twin="_bomrd_reach"))
    conds.append(xh.Cond("download: an identifier a file may declare (any ASCII character, selected others) never makes the request escape as a non-URLError", "RD.py", "_url", {}, timeout=tmo * 2, twin="_url_reach"))
    nbytes = 3 if tier == "quick" else 4
    conds.append(xh.Cond(f"covered file: every byte string up to {nbytes} bytes decodes to text that can be written out again", "DEC.py", "_decb", {"nbytes": nbytes}, timeout=tmo * 3, twin="_decb_reach"))
    ctx.functions_encoded = [
        "reuse._annotate.add_header_to_file -> header.find_and_replace_header / add_new_header -> extract.contains_reuse_info / extract_reuse_info (real chain; open() modelled, decoding may fail)",
        "reuse.report.ProjectReport.bill_of_materials (licence-text section; open() modelled, decoding may fail)",
        "reuse.download.download_license (URL construction; urlopen modelled)",
        "reuse.extract.decoded_text_from_binary on symbolic bytes (CrossHair's symbolic UTF-8 codec)",
        "reuse.global_licensing.ReuseTOML.from_dict, AnnotationsItem.from_dict, converters and validators (executed under CrossHair per value shape)",
        "reuse.global_licensing.ReuseTOML.from_toml (error mapping; tomlkit.loads stubbed to raise)",
        "reuse.cli.common.ClickObj.project (error mapping; Project.from_directory stubbed to raise)",
        "reuse.report.ProjectReport.generate / ProjectSubsetReport.generate / _MultiprocessingContainer.__call__ / _process_error (FileReport.generate stubbed to raise per file)",
    ]
    ctx.bounds = {
        "shape": "each key in turn takes every TOML type {absent,str,int,float,bool,datetime,list,table}, list/table elements again every type, nesting <= 2; leaves from 8 strings / 4 integers; the other keys hold valid values",
        "project errors": "every exception class Project.from_directory documents (parse, parse-type, parse-value, conflict, OSError and 4 subclasses) x root given or not x both include flags",
        "from_toml errors": "every subclass of tomlkit.exceptions.TOMLKitError present in the installed tomlkit (20 classes in 0.13), raised by loads()",
        "funnel": f"{nf} files, each succeeding or raising one of 11 exception classes",
        "annotate content": "6 content kinds (plain, empty, unparseable expression on top / further down / alone, valid header + unparseable one further down) x 6 unparseable expressions x 4 file types x decodable or not x replace x skip-existing x fallback-dot-license",
        "spdx licence texts": "1-2 LicenseRef- texts, each decodable or not",
        "download identifier": "'My<c>License' with c any of the 128 ASCII characters or one of 9 other code points; urlopen replaced by its documented path validation + a 404 answer",
        "file bytes": f"every byte string of 1..{nbytes} bytes (covers every UTF-8 sequence length and every malformed prefix)",
    }
    ctx.stubs = ["open() in text mode: returns the text or raises UnicodeDecodeError (its documented contract on bytes that are not UTF-8) unless errors= says otherwise", "tomlkit.loads (raises the chosen exception class; which inputs make the real parser raise which class is tomlkit's business)", "Project.from_directory (raises the chosen exception)", "FileReport.generate (raises the chosen exception or returns a minimal report)", "reuse.global_licensing._LICENSING.parse runs natively on concrete strings"]
    ctx.outside = [
        "tomlkit's and python-debian's own parsers on arbitrary bytes",
        "file contents longer than the byte bound; expressions other than the listed unparseable ones (the licence parser is a third-party library run concretely)",
        "subcommands other than through these three shared funnels",
        "two malformed keys at once (thorough tier could add pairs; not claimed)",
    ]
    ctx.assumptions = ["a value shape counts only if tomlkit can produce it: counterexamples are replayed through ReuseTOML.from_toml on the tomlkit serialisation of the document"]

    def confirm(c, ex):
        if c.func == "_ob":
            doc = eval(ex["doc"], {"datetime": datetime})  # the harness's own repr of a plain dict
            try:
                text = tomlkit.dumps(doc)
            except Exception as e:  # noqa
                return None
            out = _outcome_from_toml(text)
            if out in ("ok", "diagnostic"):
                return None
            key = ex.get("known_key") or f"{ex['focus']}|{ex['sig']}|{out}"
            return key, f"REUSE.toml {text!r} -> {out} instead of a GlobalLicensingParseError naming the file", {"toml": text}
        if c.func == "_rd":
            return f"annotate-content:{ex['why']}", f"annotate on a {ex['ext']} file with content {ex['content']!r} (expression {ex['bad_expression']!r}, undecodable={ex['undecodable']}, replace={ex['replace']}, skip_existing={ex['skip_existing']}): {ex['why']}", {"harness": "RD.py::_rd", "explain": ex}
        if c.func == "_bomrd":
            return f"spdx-licence-text:{ex['why']}", f"spdx with licence texts {ex['licences']} undecodable={ex['undecodable']}: {ex['why']}", {"harness": "RD.py::_bomrd", "explain": ex}
        if c.func == "_url":
            return f"download-url:{ex['identifier']!r}", f"download_license({ex['identifier']!r}) -> {ex['url']}: {ex['why']}", {"harness": "RD.py::_url", "explain": ex}
        if c.func == "_decb":
            return f"decode:{ex['why'][:40]}", f"file content {bytes(ex['bytes'])!r} is decoded to {ex['decoded']}: {ex['why']}", {"harness": "DEC.py::_decb", "explain": ex}
        if c.func == "_tk":
            return f"from_toml:{ex['exception']}", f"ReuseTOML.from_toml with tomlkit.loads raising {ex['exception']}: {ex['outcome']}", {"harness": "C16.py::_tk", "explain": ex}
        if c.func == "_proj":
            return f"project:{ex['exception']}", f"ClickObj.project with Project.from_directory raising {ex['exception']}: {ex['outcome']}", {"harness": "C16.py::_proj", "explain": ex}
        return f"funnel:{ex['faults']}", f"per-file faults {ex['faults']} (subset={ex['subset']}): {ex['outcome']}", {"harness": "C16.py::_funnel", "explain": ex}

    xh.settle(ctx, conds, confirm)
    return {"level": "model_checking", "exhaustive": True, "trusted_base": ["CrossHair 0.0.110 + z3", "tomlkit (serialisation for replay)"]}
