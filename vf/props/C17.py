"""C17 — convert-dep5 produces an equivalent REUSE.toml.

Engine RZ3 over the *real* pipeline, per dep5 glob g:
  dep5 text -> debian.copyright.Copyright -> reuse.convert_dep5.toml_from_dep5
  -> ReuseTOML.from_toml -> annotations[i]._paths_regex   (REUSE.toml side, method read from matches())
  FilesParagraph.files_pattern()                             (dep5 side, fullmatch)
Both compiled patterns are converted to z3 regular expressions and compared as
languages over all paths (unbounded).  Two-paragraph documents: the
last-match-wins attribution languages are compared the same way.
"""
import itertools
import random
import re
import time

import z3

from .. import re2z3 as R
from . import C05

FILES = ["src/reuse/convert_dep5.py", "src/reuse/cli/convert_dep5.py", "src/reuse/global_licensing.py"]

# Domain: project-relative paths in PurePath normal form (both sides normalise with PurePath(path).as_posix()):
# non-empty segments other than '.', joined by single '/'.
_SEGCH = R._ranges_to_re(R._negate_ranges([(47, 47)]))
_SEG = R.inter(z3.Plus(_SEGCH), R.comp(R.lit(".")))
D_PATH = z3.Concat(_SEG, z3.Star(z3.Concat(R.lit("/"), _SEG)))
D_NOLF = R.inter(D_PATH, C05.D_NOLF)
D_LF = R.inter(D_PATH, C05.D_LF)

HEADER = "Format: https://www.debian.org/doc/packaging-manuals/copyright-format/1.0/\nUpstream-Name: x\n\n"


def dep5_text(paragraphs):
    out = [HEADER]
    for i, (globs, cr, lic) in enumerate(paragraphs):
        out.append(f"Files: {' '.join(globs)}\nCopyright: {cr}\nLicense: {lic}\n\n")
    return "".join(out)


def dep5_tokens(g):
    """Tokens of the dep5 wildcard language; None if invalid (python-debian refuses it)."""
    out, i, n = [], 0, len(g)
    while i < n:
        c = g[i]
        i += 1
        if c == "*":
            out.append(("star",))
        elif c == "?":
            out.append(("q",))
        elif c == "\\":
            if i >= n or g[i] not in "\\?*":
                return None
            out.append(("lit", g[i], True))
            i += 1
        else:
            out.append(("lit", c, False))
    return out


def kclasses(ts, toml_globs, broad=False):
    """Known-finding classes of a dep5 glob (syntactic signatures of the converter's recorded defects).
    broad=True (random globs): a glob showing a defect's trigger is excused in both directions."""
    out = {}
    if any(t == ("q",) for t in ts):
        out["question-mark"] = {"under", "over"}
    # a dep5 '*' before '/' becomes '**/', which in REUSE.toml also stands for zero directories
    if any(ts[i] == ("star",) and ts[i + 1] == ("lit", "/", False) for i in range(len(ts) - 1)):
        out["star-slash-zero-directories"] = {"under", "over"} if broad else {"over"}
    return out


def C17_convert(g):
    from reuse.convert_dep5 import _convert_asterisk

    return _convert_asterisk(g)


def build(paragraphs):
    """-> (Copyright, ReuseTOML, toml_text) through the real converter."""
    from debian.copyright import Copyright

    from reuse.convert_dep5 import toml_from_dep5
    from reuse.global_licensing import ReuseTOML

    c = Copyright(dep5_text(paragraphs))
    text = toml_from_dep5(c)
    toml = ReuseTOML.from_toml(text, "REUSE.toml")
    return c, toml, text


def attribution(paragraphs, path):
    """(dep5 side, toml side) as comparable tuples for one concrete path."""
    from reuse.global_licensing import PrecedenceType, ReuseDep5

    c, toml, _ = build(paragraphs)

    def norm(d):
        out = []
        for prec, infos in sorted(d.items(), key=lambda kv: kv[0].value):
            for info in infos:
                out.append((prec.value, sorted(str(e) for e in info.spdx_expressions), sorted(info.copyright_lines)))
        return out

    a = norm(ReuseDep5("x/.reuse/dep5", c).reuse_info_of(path))
    b = norm(toml.reuse_info_of(path))
    return a, b


def replay(w):
    if w.get("harness"):
        return True
    a, b = attribution([tuple(p) for p in w["paragraphs"]], w["path"])
    return a != b


def run(ctx):
    tier = ctx.tier
    alphabet = "a./*?\\"
    maxlen = 4 if tier == "quick" else 5
    n_random = 100 if tier == "quick" else 1500
    rnd = random.Random(ctx.seed)
    q = R.Q(timeout_ms=30000)
    mode = C05.match_mode() or "match"
    ctx.functions_encoded = [
        "reuse.convert_dep5.toml_from_dep5 / _convert_asterisk / _annotations_from_paragraphs (executed per dep5 document; output parsed by the real ReuseTOML.from_toml)",
        "reuse.global_licensing.AnnotationsItem translate+matches (compiled pattern encoded)",
        "debian.copyright.FilesParagraph.files_pattern (compiled pattern encoded, fullmatch)",
        "reuse.global_licensing.ReuseDep5.reuse_info_of / ReuseTOML.reuse_info_of (attribution compared on solver witnesses)",
    ]
    ctx.bounds = {
        "dep5 glob": f"all valid dep5 globs over {list(alphabet)} of length 1..{maxlen} (complete) + {n_random} random of length {maxlen+1}..10",
        "path": "unbounded: every project-relative path in PurePath normal form (non-empty segments other than '.', any characters, any length)",
        "paragraphs": "1 paragraph × 1 glob (complete), 1 paragraph × 2 globs and 2 paragraphs × 1 glob over a pool, 3 paragraphs (first and third with equal information) over a pool",
    }
    ctx.outside = ["dep5 globs containing blanks (not expressible in a Files field)", "header fields other than those the converter copies", "lint report as a whole (only per-path attribution is compared)", "real OS failures of the write (the model raises OSError before or after a partial write)"]
    ctx.assumptions = ["python-debian's compiled files_pattern with fullmatch is the dep5 matcher (that is what ReuseDep5.reuse_info_of uses)"]

    globs = []
    invalid = 0
    for n in range(1, maxlen + 1):
        for tup in itertools.product(alphabet, repeat=n):
            g = "".join(tup)
            if dep5_tokens(g) is None:
                invalid += 1
            else:
                globs.append(g)
    random_globs = set()
    for _ in range(n_random):
        g = "".join(rnd.choice(alphabet + "**/b-") for _ in range(rnd.randint(maxlen + 1, 10)))
        if dep5_tokens(g) is None:
            invalid += 1
        else:
            globs.append(g)
            random_globs.add(g)
    ctx.extra["globs_checked"] = len(globs)
    ctx.extra["globs_invalid_skipped"] = invalid
    replayed = 0

    for g in globs:
        ts = dep5_tokens(g)
        para = [([g], "2020 Jane Doe", "MIT")]
        try:
            c, toml, text = build(para)
            fp = list(c.all_files_paragraphs())[0]
            ld = R.language(fp.files_pattern(), "fullmatch")
            item = toml.annotations[0]
            lt = R.language(item._paths_regex, mode)
        except R.Unsupported as e:
            ctx.harness_error(f"a compiled pattern for dep5 glob {g!r} is outside what vf/re2z3.py converts: {e}")
            ctx.ob(f"dep5 glob {g!r}", "RZ3", "inconclusive", detail=str(e))
            continue
        except Exception as e:  # the conversion of a valid dep5 must not crash / produce an unreadable REUSE.toml
            st = ctx.violation(f"crash:{type(e).__name__}", f"valid dep5 glob {g!r} cannot be converted/re-read: {e!r}", {"paragraphs": para, "path": "a"})
            ctx.ob(f"dep5 glob {g!r}", "RZ3", st if st == "violated" else "known")
            continue
        kin = kclasses(ts, sorted(item.paths), broad=g in random_globs)
        for dom_name, dom in (("nolf", D_NOLF), ("lf", D_LF)):
            verdict, detail = "holds", None
            t0, n0 = time.time(), q.n
            for direction, a, b in (("under", ld, lt), ("over", lt, ld)):
                r, w = q.diff(a, b, dom)
                if r == "unsat":
                    continue
                if r != "sat":
                    verdict, detail = "inconclusive", f"{direction}: {r}"
                    continue
                if not replay({"paragraphs": para, "path": w}):
                    ctx.harness_error(f"counterexample does not replay: dep5 glob={g!r} path={w!r}")
                    verdict = "inconclusive"
                    continue
                replayed += 1
                key = None
                if key is None:
                    for k in sorted(kin):
                        if direction in kin[k]:
                            key = k
                            break
                if key is None:
                    key = f"glob:{g}:{direction}:{dom_name}"
                what = (
                    f"dep5 glob {g!r} (pattern {fp.files_pattern().pattern!r}) converted to {sorted(item.paths)!r} (pattern {item._paths_regex.pattern!r}): "
                    f"path {w!r} is matched " + ("only before the conversion" if direction == "under" else "only after the conversion")
                )
                st = ctx.violation(key, what, {"paragraphs": para, "path": w})
                if st == "violated":
                    verdict = "violated"
                elif verdict == "holds":
                    verdict = "known"
                detail = what
            # attribution on a witness matched by both sides
            if dom_name == "nolf":
                r, w = q.witness(R.inter(dom, ld, lt))
                if r == "sat":
                    a, b = attribution(para, w)
                    replayed += 1
                    if a != b or not a or a[0][0] != "aggregate":
                        st = ctx.violation(f"attribution:{g}", f"path {w!r}: dep5 says {a}, converted REUSE.toml says {b}", {"paragraphs": para, "path": w})
                        verdict = "violated" if st == "violated" else verdict
            ctx.ob(
                f"dep5 glob {g!r} [{'LF-free paths' if dom_name == 'nolf' else 'paths containing LF'}]",
                "RZ3",
                verdict,
                secs=time.time() - t0,
                detail=detail,
                queries=q.n - n0,
                sample={"dep5_glob": g, "dep5_regex": fp.files_pattern().pattern, "toml_paths": sorted(item.paths), "toml_regex": item._paths_regex.pattern, "verdict": verdict} if dom_name == "nolf" else None,
            )

    # ---- field shapes: multi-line Copyright fields, License fields that carry the licence text
    FIELD_SHAPES = [
        ("2019 Acme Inc.\n 2021 Joe <j@x.org>", "MIT"),
        ("\n 2018 Jane Doe\n 2019 John Doe", "MIT"),
        ("2020 Jane Doe", "MIT\n Permission is hereby granted\n .\n to everyone"),
        ("2020 Jane Doe", "MIT OR Apache-2.0\n Either licence, at your option."),
        ("2020 Jane Doe", "GPL-2.0-or-later WITH Classpath-exception-2.0"),
        ("2020 Jane Doe\n 2021 Jane Doe", "LicenseRef-custom\n All rights reserved."),
        ("2020 Jane  Doe <jane@example.com>\n 2021 ACME\tCorp", "MIT"),  # interior runs of blanks are part of the line
    ]
    for fi, (cr, lic) in enumerate(FIELD_SHAPES):
        t0, n0 = time.time(), q.n
        para = [(["a/*"], cr, lic)]
        verdict, detail = "holds", None
        try:
            c, toml, text = build(para)
            fp = list(c.all_files_paragraphs())[0]
            ld = R.language(fp.files_pattern(), "fullmatch")
            lt = R.language(toml.annotations[0]._paths_regex, mode)
            r, w = q.witness(R.inter(D_NOLF, ld, lt))
            if r != "sat":
                verdict, detail = "inconclusive", f"no common path: {r}"
            else:
                a, b = attribution(para, w)
                replayed += 1
                if a != b or not a:
                    st = ctx.violation(f"fields:{fi}", f"Copyright field {cr!r} / License field {lic!r}: for path {w!r} dep5 says {a}, the converted REUSE.toml says {b}", {"paragraphs": para, "path": w})
                    verdict = "violated" if st == "violated" else "known"
                    detail = f"{a} vs {b}"
        except Exception as e:  # noqa - a valid dep5 must convert and re-read
            st = ctx.violation(f"fields-crash:{fi}", f"Copyright field {cr!r} / License field {lic!r} cannot be converted/re-read: {e!r}", {"paragraphs": para, "path": "a/x"})
            verdict = "violated" if st == "violated" else "known"
        ctx.ob(f"field shapes #{fi}: Copyright {cr!r} / License {lic!r}", "RZ3", verdict, secs=time.time() - t0, detail=detail, queries=q.n - n0)

    # ---- composition: two globs in one paragraph, and two paragraphs (last match wins on both sides)
    pool = ["a", "*", "a/*", "*.a", "a*", "a/b", "*a*", "a.a", "\\\\", "a/b*", "**", "a/*.a"]
    if tier == "thorough":
        pool += ["b*", "*/*", ".*", "a/**", "*b", "a-*"]
    crs = ["2020 Jane Doe", "2019 Acme Inc.\n 2021 Joe <j@x.org>"]
    # composition is checked strictly, on globs whose single-glob obligation is not a known finding
    pool = [g for g in pool if not kclasses(dep5_tokens(g), [C17_convert(g)])]
    ctx.extra["composition_pool"] = pool
    for g1, g2 in itertools.permutations(pool, 2):
        for shape in ("one-paragraph", "two-paragraphs"):
            t0, n0 = time.time(), q.n
            if shape == "one-paragraph":
                para = [([g1, g2], crs[1], "MIT OR Apache-2.0")]
            else:
                para = [([g1], crs[0], "MIT"), ([g2], crs[1], "GPL-3.0-or-later")]
            try:
                c, toml, text = build(para)
                fps = list(c.all_files_paragraphs())
                lds = [R.language(p.files_pattern(), "fullmatch") for p in fps]
                lts = [R.language(it._paths_regex, mode) for it in toml.annotations]
            except R.Unsupported as e:
                ctx.harness_error(f"a compiled pattern for {shape} {g1!r},{g2!r} is outside what vf/re2z3.py converts: {e}")
                ctx.ob(f"{shape} {g1!r},{g2!r}", "RZ3", "inconclusive", detail=str(e))
                continue
            if len(lds) != len(lts):
                st = ctx.violation(f"paragraph-count:{shape}", f"{len(lds)} Files paragraphs became {len(lts)} annotations", {"paragraphs": para, "path": "a"})
                ctx.ob(f"{shape} {g1!r},{g2!r}", "RZ3", "violated" if st == "violated" else "known")
                continue
            # attribution language of paragraph i = L_i minus all later ones
            def attr(ls, i):
                later = ls[i + 1 :]
                return R.inter(ls[i], *[R.comp(x) for x in later]) if later else ls[i]

            verdict, detail = "holds", None
            for i in range(len(lds)):
                for direction, a, b in (("under", attr(lds, i), attr(lts, i)), ("over", attr(lts, i), attr(lds, i))):
                    r, w = q.diff(a, b, D_NOLF)
                    if r == "unsat":
                        continue
                    if r != "sat":
                        verdict, detail = "inconclusive", r
                        continue
                    if not replay({"paragraphs": para, "path": w}):
                        ctx.harness_error(f"composition counterexample does not replay: {para!r} path={w!r}")
                        verdict = "inconclusive"
                        continue
                    replayed += 1
                    key = None
                    if key is None:
                        key = f"{shape}:{g1}|{g2}:{direction}"
                    what = f"{shape} {para!r}: path {w!r} attributed differently before and after conversion"
                    st = ctx.violation(key, what, {"paragraphs": para, "path": w})
                    verdict = "violated" if st == "violated" else ("known" if verdict == "holds" else verdict)
                    detail = what
                # attribution content on a witness
                r, w = q.witness(R.inter(D_NOLF, attr(lds, i), attr(lts, i)))
                if r == "sat":
                    a, b = attribution(para, w)
                    replayed += 1
                    if a != b:
                        st = ctx.violation(f"attribution:{shape}:{g1}|{g2}", f"path {w!r}: dep5 says {a}, converted says {b}", {"paragraphs": para, "path": w})
                        verdict = "violated" if st == "violated" else verdict
            ctx.ob(f"{shape} {g1!r},{g2!r}", "RZ3", verdict, secs=time.time() - t0, detail=detail, queries=q.n - n0)

    # ---- three paragraphs, the third repeating the first one's information (a converter that merges or reorders
    #      paragraphs with equal information changes which one wins for overlapping patterns): compared per
    #      attributed information, so the number and order of the resulting tables is free
    triple_pool = [g for g in ["*", "a/*", "a/b*", "a/b/*", "*.a", "a*", "a/b"] if not kclasses(dep5_tokens(g), [C17_convert(g)])]
    info_a = ("2020 Jane Doe", "MIT")
    info_b = ("2019 Third Party", "0BSD")
    triples = list(itertools.permutations(triple_pool, 3))
    if tier == "quick":
        rnd.shuffle(triples)
        triples = triples[:60]
    for g1, g2, g3 in triples:
        t0, n0 = time.time(), q.n
        para = [([g1], info_a[0], info_a[1]), ([g2], info_b[0], info_b[1]), ([g3], info_a[0], info_a[1])]
        try:
            c, toml, text = build(para)
            fps = list(c.all_files_paragraphs())
            lds = [R.language(p_.files_pattern(), "fullmatch") for p_ in fps]
            lts = [R.language(it._paths_regex, mode) for it in toml.annotations]
        except R.Unsupported as e:
            ctx.ob(f"three paragraphs {g1!r},{g2!r},{g3!r}", "RZ3", "inconclusive", detail=str(e))
            continue

        def attr(ls, i):
            later = ls[i + 1 :]
            return R.inter(ls[i], *[R.comp(x) for x in later]) if later else ls[i]

        d_info = [(tuple(sorted(l.strip() for l in p_.copyright.splitlines())), p_.license.synopsis) for p_ in fps]
        t_info = [(tuple(sorted(it.copyright_lines)), " AND ".join(sorted(str(e) for e in it.spdx_expressions))) for it in toml.annotations]
        verdict, detail = "holds", None
        for v in sorted(set(d_info) | set(t_info)):
            ld = R.union([attr(lds, i) for i in range(len(lds)) if d_info[i] == v])
            lt = R.union([attr(lts, i) for i in range(len(lts)) if t_info[i] == v])
            for a, b in ((ld, lt), (lt, ld)):
                r, w = q.diff(a, b, D_NOLF)
                if r == "unsat":
                    continue
                if r != "sat":
                    verdict, detail = "inconclusive", r
                    continue
                if not replay({"paragraphs": para, "path": w}):
                    ctx.harness_error(f"three-paragraph counterexample does not replay: {para!r} path={w!r}")
                    verdict = "inconclusive"
                    continue
                replayed += 1
                a_, b_ = attribution(para, w)
                st = ctx.violation(f"three-paragraphs:{g1}|{g2}|{g3}", f"paragraphs {[p_[0] for p_ in para]} (1st and 3rd carry the same information): path {w!r} is attributed {a_} before and {b_} after the conversion", {"paragraphs": para, "path": w})
                verdict = "violated" if st == "violated" else ("known" if verdict == "holds" else verdict)
                detail = f"path {w!r}"
        ctx.ob(f"three paragraphs {g1!r},{g2!r},{g3!r}", "RZ3", verdict, secs=time.time() - t0, detail=detail, queries=q.n - n0)

    # ---- ordering and refusal of the command itself (XH)
    from .. import xh

    def confirm(c, ex):
        return f"ordering:{ex['write']}:{ex['has_dep5']}", f"convert-dep5 with dep5 present={ex['has_dep5']}, write_text {ex['write']}: operations {ex['operations']}, dep5 still there={ex['dep5_still_there']}, outcome {ex['outcome']}", {"harness": "C17.py::_order", "explain": ex, "paragraphs": [], "path": ""}

    xh.settle(ctx, [xh.Cond("convert-dep5: REUSE.toml is written before dep5 is removed; refuses without dep5", "C17.py", "_order", {}, timeout=120, twin="_order_reach")], confirm)
    ctx.extra["witnesses_replayed_through_reuse_info_of"] = replayed
    ctx.queries = q.n
    ctx.solver_time = q.secs
    return {
        "level": "model_checking",
        "exhaustive": True,
        "trusted_base": ["z3 regex solver", "re._parser", "vf/re2z3.py", "python-debian and tomlkit executed concretely"],
        "explanation": "language equivalence (both inclusions, LF-free and LF domains) between dep5 matcher and converted REUSE.toml matcher per glob; last-match-wins attribution languages for two globs / two paragraphs; attribution content compared on solver witnesses",
    }
