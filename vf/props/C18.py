"""C18 — the SPDX bill of materials is a faithful, well-formed image of the project (partial).

(1) LicenseConcluded: for enumerated expression sets the real FileReport.generate computes the
    concluded string; both sides become z3 Bool terms and `conjunction(originals) != concluded`
    is asked of z3 (the 2^n truth assignments are the solver's).
(2) Document structure: XH over the real ProjectReport.bill_of_materials with a reference
    tag-value reader (vf/harness/C18.py).
(3) SPDXID uniqueness through the real FileReport.generate on name pairs (concrete)."""
import itertools
import random
import time
from pathlib import Path

import z3

from .. import xh

FILES = ["src/reuse/report.py", "src/reuse/cli/spdx.py", "src/reuse/_util.py"]
ATOMS = ["MIT", "Apache-2.0", "GPL-2.0+", "GPL-2.0-or-later WITH Classpath-exception-2.0", "LicenseRef-x"]


# ---- a tiny SPDX expression reader of our own (WITH > AND > OR, parentheses)
def tokenize(s):
    out, i = [], 0
    while i < len(s):
        c = s[i]
        if c.isspace():
            i += 1
        elif c in "()":
            out.append(c)
            i += 1
        else:
            j = i
            while j < len(s) and not s[j].isspace() and s[j] not in "()":
                j += 1
            out.append(s[i:j])
            i = j
    return out


def parse(s):
    toks = tokenize(s)
    pos = [0]

    def peek():
        return toks[pos[0]] if pos[0] < len(toks) else None

    def eat():
        pos[0] += 1
        return toks[pos[0] - 1]

    def atom():
        t = eat()
        if t == "(":
            e = expr_or()
            if eat() != ")":
                raise ValueError("missing )")
            return e
        if t in (")", "AND", "OR", "WITH", None):
            raise ValueError(f"unexpected {t}")
        if peek() == "WITH":
            eat()
            return ("sym", f"{t} WITH {eat()}")
        return ("sym", t)

    def expr_and():
        e = [atom()]
        while peek() == "AND":
            eat()
            e.append(atom())
        return e[0] if len(e) == 1 else ("and", e)

    def expr_or():
        e = [expr_and()]
        while peek() == "OR":
            eat()
            e.append(expr_and())
        return e[0] if len(e) == 1 else ("or", e)

    e = expr_or()
    if pos[0] != len(toks):
        raise ValueError("trailing tokens")
    return e


def to_z3(t, env):
    if t[0] == "sym":
        return env.setdefault(t[1], z3.Bool(t[1]))
    parts = [to_z3(x, env) for x in t[1]]
    return z3.And(*parts) if t[0] == "and" else z3.Or(*parts)


def render(t):
    if t[0] == "sym":
        return t[1]
    op = " AND " if t[0] == "and" else " OR "
    return "(" + op.join(render(x) for x in t[1]) + ")"


def trees(depth, atoms):
    if depth == 0:
        return [("sym", a) for a in atoms]
    lower = trees(depth - 1, atoms)
    out = list(lower)
    for op in ("and", "or"):
        for a, b in itertools.product(lower, repeat=2):
            out.append((op, [a, b]))
    return out


class _P:
    """Minimal project for FileReport.generate (no file system but is_file)."""

    def __init__(self, infos):
        self.infos = infos
        self.license_map = {}
        self.licenses = {}
        self.root = Path("/proj")

    def relative_from_root(self, p):
        return Path(p).relative_to("/proj")

    def reuse_info_of(self, p):
        return self.infos


def concluded(exprs, name="/proj/f.py"):
    import reuse.report as rp
    from reuse import ReuseInfo, _LICENSING

    class FP(type(Path("/"))):
        def is_file(self):
            return True

    saved = rp.Path
    rp.Path = FP
    try:
        infos = [ReuseInfo(spdx_expressions={_LICENSING.parse(e)}) for e in exprs]
        r = rp.FileReport.generate(_P(infos), name, do_checksum=False, add_license_concluded=True)
    finally:
        rp.Path = saved
    return r


def replay(w):
    if "exprs" in w:
        r = concluded(w["exprs"])
        env = {}
        a = z3.And(*[to_z3(parse(e), env) for e in w["exprs"]])
        b = to_z3(parse(r.license_concluded), env)
        s = z3.Solver()
        s.add(a != b)
        return str(s.check()) == "sat"
    return True


def run(ctx):
    tier = ctx.tier
    rnd = random.Random(ctx.seed)
    t_all = time.time()
    atoms = ATOMS[:4]
    d1 = trees(1, atoms)
    d2 = trees(2, atoms[:3]) if tier == "quick" else trees(2, atoms)
    cases = [[render(t)] for t in d2]
    cases += [[render(a), render(b)] for a, b in itertools.product(d1, repeat=2)]
    pool3 = trees(1, atoms[:3])
    triples = list(itertools.product(pool3, repeat=3))
    rnd.shuffle(triples)
    cases += [[render(a), render(b), render(c)] for a, b, c in triples[: (600 if tier == "quick" else 6000)]]
    if tier == "thorough":
        d3src = trees(2, ATOMS)
        for _ in range(4000):
            a, b = rnd.choice(d3src), rnd.choice(d3src)
            cases.append([render((rnd.choice(["and", "or"]), [a, b]))])
    n_holds = n_q = 0
    secs = 0.0
    sample = None
    for exprs in cases:
        try:
            r = concluded(exprs)
            env = {}
            orig = z3.And(*[to_z3(parse(e), env) for e in exprs])
            conc = to_z3(parse(r.license_concluded), env)
        except Exception as e:  # noqa
            ctx.ob(f"concluded {exprs}", "z3-bool", "inconclusive", detail=f"{type(e).__name__}: {e}")
            continue
        s = z3.Solver()
        s.add(orig != conc)
        t0 = time.time()
        res = str(s.check())
        secs += time.time() - t0
        n_q += 1
        if res == "unsat":
            n_holds += 1
            if sample is None or len(exprs) > len(sample["expressions"]):
                sample = {"expressions": exprs, "LicenseConcluded": r.license_concluded, "z3": "orig != concluded is unsat", "symbols": sorted(env)}
        elif res == "sat":
            m = s.model()
            assignment = {k: bool(m.eval(v, model_completion=True)) for k, v in env.items()}
            st = ctx.violation(f"concluded:{exprs}", f"LicenseConcluded {r.license_concluded!r} is not equivalent to the conjunction of {exprs} under {assignment}", {"exprs": exprs})
            ctx.ob(f"concluded {exprs}", "z3-bool", st if st == "violated" else "known", detail=r.license_concluded)
        else:
            ctx.ob(f"concluded {exprs}", "z3-bool", "inconclusive", detail=res)
    ctx.ob(f"LicenseConcluded equivalence on {len(cases)} expression sets", "z3-bool", "holds" if n_holds == len(cases) else "inconclusive", secs=secs, queries=n_q, sample=sample,
           detail=None if n_holds == len(cases) else f"{n_holds}/{len(cases)} discharged")
    ctx.extra["license_concluded_sets"] = len(cases)
    ctx.extra["license_concluded_equivalent"] = n_holds
    # NONE / NOASSERTION
    r0 = concluded([])
    if r0.license_concluded != "NONE":
        ctx.violation("concluded-none", f"no expression at all gives LicenseConcluded {r0.license_concluded!r}, expected NONE", {"exprs": []})
    # ---- SPDXID uniqueness through the real generate (names that differ only in blanks / case / unicode form)
    names = ["/proj/a b.py", "/proj/a  b.py", "/proj/a_b.py", "/proj/A b.py", "/proj/a b.py ", "/proj/sub/a b.py", "/proj/ü.py", "/proj/ü.py"]
    import reuse.report as rp

    class _R:
        n = 0

        @classmethod
        def getrandbits(cls, k):
            return 7  # worst case: identical pseudo-checksums

    saved_random = rp.random
    rp.random = _R
    try:
        ids = {}
        for n in names:
            ids.setdefault(concluded(["MIT"], n).spdx_id, []).append(n)
    finally:
        rp.random = saved_random
    dup = [v for v in ids.values() if len(v) > 1]
    if dup:
        ctx.violation("spdxid-collision", f"files {dup[0]} share one SPDXID", {"names": dup[0]})
    ctx.ob("SPDXID distinct for names differing in blanks/case/normalisation (equal checksums)", "concrete", "holds" if not dup else "violated", queries=len(names))

    # ---- document structure (XH)
    conds = []
    tmo = 300 if tier == "quick" else 900
    for two in (False, True):
        for ref in (False, True):
            conds.append(xh.Cond(f"bill_of_materials two_files={two} licenseref={ref}", "C18.py", "_bom", {"two": two, "with_ref": ref}, timeout=tmo, twin="_bom_reach"))

    conds.append(xh.Cond("aggregation: two covered files stay two File sections whether or not their contents (checksums) coincide", "C18.py", "_agg", {}, timeout=tmo, twin="_agg_reach"))
    conds.append(xh.Cond("FileChecksum: the chunked read hashes exactly the file's bytes (sizes around the 8192-byte chunk)", "C18.py", "_sha", {}, timeout=tmo, twin="_sha_reach"))

    def confirm(c, ex):
        if c.func == "_agg":
            return f"agg:{ex['story'][:50]}", f"{ex['story']} (names={ex['names']}, same checksum={ex['same_checksum']}, checksums computed={ex['with_checksum']})", {"harness": "C18.py::_agg", "explain": ex}
        if c.func == "_sha":
            return f"sha1:size{ex['size']}", f"_checksum of a {ex['size']}-byte file is {ex['got']}, its SHA-1 is {ex['sha1']}", {"harness": "C18.py::_sha", "explain": ex}
        return f"bom:{ex['story'][:50]}", f"{ex['story']} for names={ex['names']} copyright={ex['copyright']!r} person={ex['person']!r}", {"harness": "C18.py::_bom", "explain": {k: v for k, v in ex.items() if k != "document"}}

    xh.settle(ctx, conds, confirm)
    ctx.functions_encoded = [
        "reuse.report.FileReport.generate (license_concluded = parse(' AND '.join(...)).simplify().render(); spdx_id) - executed, its output string translated to a z3 Bool term",
        "reuse.report.ProjectReport.bill_of_materials, format_creator (XH)",
        "reuse.report.FileReport.__hash__ / equality as used by ProjectReport.file_reports (a set) - two reports, checksums equal or not, computed or not (XH)",
    ]
    ctx.bounds = {
        "LicenseConcluded": f"expression trees over {atoms} (incl. 'X+' and 'X WITH E' as atoms): all trees of depth <= 2 as single expressions, all pairs of depth <= 1, sampled triples" + ("; plus 4000 random depth-3 trees over 5 symbols" if tier == "thorough" else ""),
        "document": "1-2 files, names from 7 shapes (blank, non-ASCII, ': ', tag-like), copyright from 5 shapes (multi-line, 'NONE', tag-like), 5 licence lists, 5 creator forms, LicenseRef present or not",
    }
    ctx.stubs = ["uuid4 and datetime.now fixed", "pathlib.Path in reuse.report replaced by a model in which only /proj/LICENSES/LicenseRef-x.txt exists (the working directory is not the root)", "project.reuse_info_of returns the chosen expressions"]
    ctx.outside = [
        "SHA-1 / MD5 themselves (hashlib's contract); the chunked read around them IS checked, on 12 file sizes around the chunk boundaries chosen by the solver",
        "which files are covered (C03) and what is attributed to them (C02/C04)",
        "the full SPDX tag-value grammar; file names containing line breaks or '<text>'",
        "symbolic characters in names: the writer's StringIO on symbolic strings exceeded every path budget (measured), so names are chosen from a list",
    ]
    ctx.assumptions = ["our own 40-line SPDX expression reader (vf/props/C18.py::parse) defines the Boolean reading of both sides"]
    return {"level": "model_checking", "exhaustive": False, "trusted_base": ["z3", "own SPDX expression reader", "CrossHair 0.0.110", "reference tag-value reader"]}
