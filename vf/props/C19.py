"""C19 — download never overwrites and supplies exactly the missing licences.

XH over the real download command body, put_license_in_file, _path_to_license_file and
find_licenses_directory on a file-system model with the network replaced by a per-identifier stub."""
from .. import xh

FILES = ["src/reuse/download.py", "src/reuse/cli/download.py", "src/reuse/_util.py"]
IDS = ["MIT", "MIT+", "GPL-3.0", "Foo", "LicenseRef-x", "LicenseRef-x+"]


def replay(w):
    return True


def run(ctx):
    tier = ctx.tier
    conds = []
    tmo = 400 if tier == "quick" else 2400
    for layout in ("root", "in-licenses"):
        for source in ("none", "dir") if tier == "quick" else ("none", "file", "dir", "dir-missing"):
            for first in range(len(IDS)):
                conds.append(xh.Cond(f"download {IDS[first]} + any second licence, invoked from {layout}, --source={source}", "DL.py", "_dl", {"nreq": 2, "layout": layout, "source": source, "first": first}, timeout=tmo, twin="_dl_reach"))
        for source in ("none", "file", "dir", "dir-missing"):
            conds.append(xh.Cond(f"download one licence with --output, invoked from {layout}, --source={source}", "DL.py", "_dl", {"nreq": 1, "layout": layout, "source": source, "output": True}, timeout=tmo, twin="_dl_reach"))
        conds.append(xh.Cond(f"download two licences with --output (must be refused), invoked from {layout}", "DL.py", "_dl", {"nreq": 2, "layout": layout, "source": "none", "output": True}, timeout=tmo, twin="_dl_reach"))
    conds.append(xh.Cond("download_license: only HTTP status 200 yields a text, every other final status (100-599) is a URLError", "DL.py", "_status", {}, timeout=tmo, twin="_status_reach"))
    for first in (0, 4):
        conds.append(xh.Cond(f"download {IDS[first]} + any second licence from a VCS root that is itself named LICENSES (text goes to <root>/LICENSES/)", "DL.py", "_dl", {"nreq": 2, "layout": "vcs-root-named-licenses", "source": "none", "first": first}, timeout=tmo, twin="_dl_reach"))
    ctx.functions_encoded = [
        "reuse.download.download_license (status handling; urlopen modelled: response for 2xx, HTTPError otherwise)",
        "reuse.cli.download.download (command body: '+' stripping, --output rule, per-licence error handling, exit status)",
        "reuse.download.put_license_in_file (mkdir, exists check, LicenseRef branch, download-before-open)",
        "reuse.download._path_to_license_file, reuse._util.find_licenses_directory, _strip_plus_from_identifier",
    ]
    ctx.bounds = {
        "request": "1-2 identifiers from {MIT, MIT+, GPL-3.0, Foo, LicenseRef-x, LicenseRef-x+}; network outcome per identifier in {text, URLError}",
        "status": "final HTTP status any integer in 100..599 (symbolic)",
        "pre-state": "LICENSES/ absent or present; target file of each requested licence pre-existing or not",
        "options": "--output given or not; --source in {none, file, directory holding the text, directory without it}; invoked from the root or from inside LICENSES/ (root named LICENSES, no VCS), or from a VCS-detected root that is itself named LICENSES",
    }
    ctx.stubs = ["pathlib.Path (exists, is_dir, mkdir, touch, open, cwd) and shutil.copyfile replaced by a dict-backed model in which a file exists from the moment it is opened for writing", "download_license replaced by the network stub (documented contract: returns the text or raises URLError)", "click.echo silenced"]
    ctx.outside = ["real urllib behaviour (partial reads, other exception types, redirects)", "--all (its input, report.missing_licenses, is C06's subject)", "more than two identifiers"]
    ctx.assumptions = ["oracle from the statement: pre-existing entries unchanged; new entries only at LICENSES/<id without '+'>.txt or --output; nothing left for a failed identifier; remaining identifiers still handled; exit 1 iff some failure; LicenseRef- never touches the network"]

    def confirm(c, ex):
        if c.func == "_status":
            return f"download-status:{ex['status']}", ex["why"], {"harness": "DL.py::_status", "explain": ex}
        return f"download:{ex['why'][:60]}", f"layout={ex['layout']} output={ex['output']} source={ex['source']} requested={ex['requested']}: {ex['why']} (exit {ex['exit']}; before {ex['before']}; after {ex['after']})", {"harness": "DL.py::_dl", "explain": ex}

    xh.settle(ctx, conds, confirm)
    return {"level": "model_checking", "exhaustive": True, "trusted_base": ["CrossHair 0.0.110 + z3", "file-system and network model"]}
