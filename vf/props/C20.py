"""C20 — copyright notices are built and merged without losing holders or years.

XH + PYRE: the real make_copyright_line / merge_copyright_lines / _parse_copyright_year with the real
_COPYRIGHT_PATTERNS interpreted by PYRE (vf/pyre.py), free characters inside concrete holders."""
from .. import pyre_validate, xh

FILES = ["src/reuse/copyright.py", "src/reuse/extract.py", "src/reuse/comment.py"]
PREFIXES = ["spdx", "spdx-c", "spdx-string-c", "spdx-string", "spdx-string-symbol", "spdx-symbol", "string", "string-c", "string-symbol", "symbol"]


def roundtrip(holder, year, prefix):
    """On the real, un-patched code: -> None if the notice reads back, else what differs."""
    from reuse.copyright import _COPYRIGHT_PREFIXES, make_copyright_line
    from reuse.extract import _COPYRIGHT_PATTERNS

    def first(line):
        for p in _COPYRIGHT_PATTERNS:
            m = p.search(line)
            if m is not None:
                return m
        return None

    if first(holder) is not None:
        return None if make_copyright_line(holder, year, prefix) == holder else "a notice was not kept verbatim"
    line = make_copyright_line(holder, year, prefix)
    m = first(line)
    if m is None:
        return "built line is not recognised"
    g = m.groupdict()
    if g["prefix"] != _COPYRIGHT_PREFIXES[prefix]:
        return f"prefix read back as {g['prefix']!r}"
    if g["year"] != year:
        return f"year read back as {g['year']!r}"
    if g["statement"] != holder:
        return f"holder read back as {g['statement']!r}"
    if g["copyright"].strip() != line:
        return f"notice read back as {g['copyright']!r}"
    return None


def replay(w):
    if "holder" in w:
        return roundtrip(w["holder"], w.get("year"), w["prefix"]) is not None
    return True


def run(ctx):
    tier = ctx.tier
    n, bad = pyre_validate.validate(2000 if tier == "quick" else 8000, ctx.seed)
    ctx.extra["pyre_validation_comparisons"] = n
    if bad:
        ctx.harness_error(f"PYRE disagrees with re: {bad[:3]}")
        return {"level": "model_checking"}
    carve = sorted(ctx.known)
    conds = []
    tmo = 200 if tier == "quick" else 1500
    years = ["none", "single", "spaced"] if tier == "quick" else ["none", "single", "range", "spaced"]
    carriers = ["Jane Doe"] if tier == "quick" else ["Jane Doe", "Acme Inc. <info@acme.example>", "Ünï Cödé e.V."]
    for prefix in PREFIXES:
        for hole in ("start", "mid", "end"):
            for y in years:
                for car in carriers:
                    conds.append(xh.Cond(f"round-trip prefix={prefix} year={y} holder={car!r} hole={hole} free=1", "C20.py", "_rt", {"prefix": prefix, "hole": hole, "nfree": 1, "year": y, "carrier": car, "carve": carve}, timeout=tmo, twin="_rt_reach"))
    # two free characters
    for prefix in PREFIXES if tier == "thorough" else ["spdx", "string-c", "symbol", "spdx-string-symbol"]:
        conds.append(xh.Cond(f"round-trip prefix={prefix} year=none hole=end free=2", "C20.py", "_rt", {"prefix": prefix, "hole": "end", "nfree": 2, "year": "none", "carve": carve}, timeout=tmo * 2, twin="_rt_reach"))
    if tier == "thorough":
        ranges = [[0, 33], [33, 48], [48, 58], [58, 65], [65, 128], [128, 0x110000]]
        for prefix in ["spdx", "string-c", "symbol"]:
            for hole in ("start", "mid"):
                for r in ranges:
                    conds.append(xh.Cond(f"round-trip prefix={prefix} year=single hole={hole} free=2 first in U+{r[0]:04X}..U+{r[1]-1:04X}", "C20.py", "_rt", {"prefix": prefix, "hole": hole, "nfree": 2, "year": "single", "c0_range": r, "carve": carve}, timeout=tmo, twin="_rt_reach"))
    # merging
    for h0 in range(4):
        conds.append(xh.Cond(f"merge 2 notices first holder #{h0}", "C20.py", "_merge", {"m_n": 2, "fix_h0": h0}, timeout=tmo * 2, twin="_merge_reach"))
    for pf in (["spdx", "string-c"], ["symbol", "spdx-string-symbol"], ["spdx", "symbol", "string-c"]) if tier == "quick" else (["spdx", "string-c", "symbol", "spdx-string-symbol"],):
        conds.append(xh.Cond(f"merge 3 notices of one holder, prefixes {pf}", "C20.py", "_merge", {"m_n": 3, "m_same_holder": True, "m_prefixes": pf}, timeout=tmo * 3, twin="_merge_reach"))
    for pf in (["spdx"], ["string-c", "symbol"]) if tier == "quick" else (["spdx"], ["spdx", "string-c", "symbol"]):
        conds.append(xh.Cond(f"merge 3 notices: holder A, another holder, holder A again, prefixes {pf}", "C20.py", "_merge", {"m_n": 3, "m_aba": True, "m_prefixes": pf}, timeout=tmo * 3, twin="_merge_reach"))
    conds.append(xh.Cond("get_year: 0-3 --year options in any order, --exclude-year", "C20.py", "_year", {}, timeout=tmo, twin="_year_reach"))
    ctx.functions_encoded = [
        "reuse.cli.annotate.get_year",
        "reuse.copyright.make_copyright_line, merge_copyright_lines, _parse_copyright_year, _COPYRIGHT_PREFIXES",
        "reuse.extract._COPYRIGHT_PATTERNS incl. _END_PATTERN (real compiled patterns, interpreted by PYRE on symbolic subjects, by re itself on concrete ones)",
    ]
    ctx.bounds = {
        "round trip": f"10 prefixes x year forms {years} x holders {carriers} with ONE free character (any code point U+0000..U+10FFFF except LF and surrogates) at the start, middle or end; TWO free characters at the end" + (" and, split by ranges of the first one, at the start/middle for 3 prefixes" if tier == "thorough" else " for 4 prefixes"),
        "merge": "2 notices over 4 holders x 4 prefixes x 5 year forms (complete); 3 notices of one holder; 3 notices holder A / another holder / holder A again",
    }
    ctx.stubs = ["module-level pattern objects replaced by PyRe(real pattern); re.match in _parse_copyright_year routed through PyRe", "merge_copyright_lines is given a list instead of a set (it only iterates)"]
    ctx.outside = ["symbolic year digits (every such condition exceeded 900 s; year forms are concrete)", "holders with more than two free characters", "holders that begin with four digits when no year is given (inherently ambiguous)"]
    ctx.assumptions = [f"PYRE == re on {n} comparisons this run (test literals of the repository + generated lines)", "holder grammar: stripped, no line feed; a holder that already is a notice must come back verbatim (second sentence of the statement)"]

    def confirm(c, ex):
        if c.func == "_rt":
            w = {"holder": ex["holder"], "year": ex["year"], "prefix": ex["prefix"]}
            why = roundtrip(w["holder"], w["year"], w["prefix"])
            if why is None:
                return None
            key = ex.get("known_key") or f"roundtrip:{ex['prefix']}:{ex['year']}:{ex['holder']!r}"
            return key, f"make_copyright_line({w['holder']!r}, {w['year']!r}, {w['prefix']!r}) = {ex['line']!r}: {why}", w
        if c.func == "_year":
            return f"get_year:{ex['years']}", f"get_year({ex['years']}, exclude={ex['exclude']}) = {ex['got']!r} does not span the years given", {"harness": "C20.py::_year", "explain": ex}
        return f"merge:{ex['why']}:{ex['notices']}", f"merge of {ex['notices']} gives {ex['merged']}: {ex['why']}", {"harness": "C20.py::_merge", "explain": ex}

    xh.settle(ctx, conds, confirm)
    return {"level": "model_checking", "exhaustive": True, "trusted_base": ["CrossHair 0.0.110 + z3", "vf/pyre.py (validated against re this run)"]}
