"""Shared by C08 / C09 / C10: conditions over vf/harness/HDR.py and replay on the real code."""
from .. import xh

REPS = ["PythonCommentStyle", "CCommentStyle", "HtmlCommentStyle", "JuliaCommentStyle", "CppCommentStyle", "LispCommentStyle", "EmptyCommentStyle", "TexCommentStyle"]


def style_forms():
    from reuse import comment

    out = []
    for c in comment._all_style_classes():
        if c.__name__ == "UncommentableCommentStyle":
            continue
        if c.__name__ == "EmptyCommentStyle":
            out.append((c.__name__, False))
            continue
        if c.can_handle_single():
            out.append((c.__name__, False))
        if c.can_handle_multi():
            out.append((c.__name__, True))
    return out


def conditions(func, tier, carve, replace_modes=(True,), merge_modes=(False,), tmo=None):
    conds = []
    tmo = tmo or (400 if tier == "quick" else 3000)
    for name, multi in style_forms():
        for replace in replace_modes:
            for merge in merge_modes:
                deep = name in (REPS[:4] if tier == "quick" else REPS)
                if tier == "quick":
                    n = 3 if deep and replace and not merge else 2
                else:
                    n = 4 if deep and replace and not merge else 3
                if n >= 3 and deep:
                    # split by the kind of the first line
                    for first in range(10):
                        conds.append(xh.Cond(f"{func[1:]} {name} multi={multi} replace={replace} merge={merge} body={n} lines, first line kind #{first}", "HDR.py", func, {"style": name, "multi": multi, "replace": replace, "merge": merge, "nlines": n, "first": first, "carve": carve}, timeout=tmo, twin=func + "_reach"))
                else:
                    conds.append(xh.Cond(f"{func[1:]} {name} multi={multi} replace={replace} merge={merge} body={n} lines", "HDR.py", func, {"style": name, "multi": multi, "replace": replace, "merge": merge, "nlines": n, "carve": carve}, timeout=tmo, twin=func + "_reach"))
    return conds


def annotate_real(text, style, multi, replace=True, merge=False, request="full"):
    import reuse.comment as cm
    from reuse import ReuseInfo, _LICENSING
    from reuse.header import add_new_header, find_and_replace_header

    kw = {}
    if request in ("full", "licence-only"):
        kw["spdx_expressions"] = {_LICENSING.parse("GPL-3.0-or-later")}
    if request in ("full", "copyright-only"):
        kw["copyright_lines"] = {"SPDX-FileCopyrightText: 2020 Jane Doe"}
    if request == "case-twin":
        kw = {"spdx_expressions": {_LICENSING.parse("GPL-3.0-or-later")}, "copyright_lines": {"SPDX-FileCopyrightText: 2019 OLD HOLDER"}, "contributor_lines": {"OLD CONTRIBUTOR"}}
    if request == "verbatim-notice":
        kw = {"copyright_lines": {"Portions Copyright 2019 Jane Doe"}}
    if request == "two-years":
        from reuse.cli.annotate import get_year
        from reuse.copyright import make_copyright_line

        kw["copyright_lines"] = {make_copyright_line("Jane Doe", get_year(["2016", "2019"], False), "spdx")}
    if request in ("full", "contributor-only"):
        kw["contributor_lines"] = {"Alice Example"}
    info = ReuseInfo(**kw)
    f = find_and_replace_header if replace else add_new_header
    return f(text, info, style=getattr(cm, style), force_multi=multi, merge_copyrights=merge)


BOUNDS = {
    "styles": "every comment style class x {single, multi} where supported",
    "body": "2 body items for every style, 3 for four representative styles (thorough: 3 for every style, 4 for eight): each item blank, white-space only, code, indented code, comment in the file's style, comment in a foreign style, an existing REUSE header written by the tool itself in that style, a shebang-like first line, or absent; with and without a final newline",
    "request": "one copyright notice, one licence expression, one contributor (concrete); default template",
}
STUBS = ["module-level patterns wrapped in PyRe (concrete subjects go to the real compiled pattern)", "licence parsing native"]
