"""PYRE — exact pure-Python backtracking interpreter of a *real* compiled pattern's parse tree.

CrossHair's own `re` model is unsound on reuse's patterns (false counterexamples, measured), and
the C implementation realises symbolic strings.  PyRe(real_pattern) re-reads the pattern with
re._parser.parse and interprets the tree with the same priority rules as sre (alternatives in order,
greedy/lazy repetition, captures, anchors incl. MULTILINE, fixed-width look-arounds), in plain
Python that CrossHair executes symbolically.  Character-class membership is computed with the
non-forking `&`/`|` on symbolic booleans, so one class test forks once (in / out), not per range.

Validated against `re` on every run (vf/pyre_validate.py); any disagreement is a harness error.
"""
import re

try:
    from re import _constants as sc
    from re import _parser as sp
except ImportError:  # pragma: no cover
    import sre_constants as sc
    import sre_parse as sp

try:
    from crosshair.tracers import NoTracing, is_tracing
except Exception:  # pragma: no cover - crosshair absent: always native
    NoTracing = None

    def is_tracing():
        return False


def codes_of(s):
    """Code points of the subject as a Python list: plain ints where the character is concrete,
    CrossHair symbolic ints where it is free (CrossHair keeps exactly that list inside its lazy
    string), so that comparisons on concrete positions cost nothing."""
    if NoTracing is None or not is_tracing():
        return [ord(c) for c in s]
    with NoTracing():
        plain = type(s) is str
        cp = None if plain else getattr(s, "_codepoints", None)
        if plain:
            return [ord(c) for c in s]
    if cp is not None:
        return list(cp)
    return [ord(c) for c in s]

_SPACE = None
_DIGIT = None
_WORD = None


def _cat(cat):
    global _SPACE, _DIGIT, _WORD
    if cat in (sc.CATEGORY_SPACE, sc.CATEGORY_NOT_SPACE):
        if _SPACE is None:
            _SPACE = _full_ranges(lambda ch: ch.isspace())
        return _SPACE, cat == sc.CATEGORY_NOT_SPACE
    if cat in (sc.CATEGORY_DIGIT, sc.CATEGORY_NOT_DIGIT):
        if _DIGIT is None:
            _DIGIT = _full_ranges(lambda ch: ch.isdecimal())
        return _DIGIT, cat == sc.CATEGORY_NOT_DIGIT
    if cat in (sc.CATEGORY_WORD, sc.CATEGORY_NOT_WORD):
        if _WORD is None:
            _WORD = _full_ranges(lambda ch: ch.isalnum() or ch == "_")
        return _WORD, cat == sc.CATEGORY_NOT_WORD
    raise NotImplementedError(f"category {cat}")


def _full_ranges(pred):
    out, start = [], None
    for c in range(0, 0x110000 + 1):
        ok = c < 0x110000 and pred(chr(c))
        if ok and start is None:
            start = c
        elif not ok and start is not None:
            out.append((start, c - 1))
            start = None
    return out


def _neg(ranges):
    out, cur = [], 0
    for a, b in sorted(ranges):
        if a > cur:
            out.append((cur, a - 1))
        cur = max(cur, b + 1)
    if cur <= 0x10FFFF:
        out.append((cur, 0x10FFFF))
    return out


def _compile_in(items):
    neg = False
    ranges = []
    for op, av in items:
        if op is sc.NEGATE:
            neg = True
        elif op is sc.LITERAL:
            ranges.append((av, av))
        elif op is sc.RANGE:
            ranges.append((av[0], av[1]))
        elif op is sc.CATEGORY:
            r, n = _cat(av)
            ranges.extend(_neg(r) if n else r)
        else:
            raise NotImplementedError(f"IN item {op}")
    ranges.sort()
    merged = []
    for a, b in ranges:
        if merged and a <= merged[-1][1] + 1:
            merged[-1] = (merged[-1][0], max(merged[-1][1], b))
        else:
            merged.append((a, b))
    return _neg(merged) if neg else merged


def _member(c, ranges):
    """c in ranges, computed without forking when c is symbolic."""
    if type(c) is int:
        for lo, hi in ranges:
            if lo <= c <= hi:
                return True
        return False
    r = False
    for lo, hi in ranges:
        if lo == hi:
            r = r | (c == lo)
        else:
            r = r | ((c >= lo) & (c <= hi))
    return r


def _native_subject(codes):
    """If every code point is concrete return the subject as a native str (the real compiled pattern is
    then used directly, outside the tracer); else None."""
    if NoTracing is None or not is_tracing():
        return None  # not under CrossHair: the interpreter itself is what is being validated
    with NoTracing():
        for c in codes:
            if type(c) is not int:
                return None
        return "".join(map(chr, codes))


class Node:
    __slots__ = ("op", "a", "b", "c")

    def __init__(self, op, a=None, b=None, c=None):
        self.op, self.a, self.b, self.c = op, a, b, c


def _compile(items, flags):
    out = []
    for op, av in items:
        if op is sc.LITERAL:
            out.append(Node("lit", av))
        elif op is sc.NOT_LITERAL:
            out.append(Node("in", _neg([(av, av)])))
        elif op is sc.ANY:
            out.append(Node("in", [(0, 0x10FFFF)] if flags & re.DOTALL else _neg([(10, 10)])))
        elif op is sc.IN:
            out.append(Node("in", _compile_in(av)))
        elif op is sc.BRANCH:
            out.append(Node("branch", [_compile(sub, flags) for sub in av[1]]))
        elif op is sc.SUBPATTERN:
            g, add, dele, sub = av
            if add or dele:
                raise NotImplementedError("inline flags")
            out.append(Node("group", g, _compile(sub, flags)))
        elif op in (sc.MAX_REPEAT, sc.MIN_REPEAT):
            lo, hi, sub = av
            out.append(Node("max" if op is sc.MAX_REPEAT else "min", lo, None if hi is sc.MAXREPEAT else hi, _compile(sub, flags)))
        elif op is sc.AT:
            out.append(Node("at", av))
        elif op in (sc.ASSERT, sc.ASSERT_NOT):
            direction, sub = av
            out.append(Node("assert" if op is sc.ASSERT else "assert_not", direction, _compile(sub, flags)))
        else:
            raise NotImplementedError(f"op {op}")
    if flags & re.IGNORECASE:
        raise NotImplementedError("IGNORECASE")
    return out


def _width(items):
    """Fixed width of a compiled sequence (for look-behind); None if variable."""
    w = 0
    for n in items:
        if n.op in ("lit", "in"):
            w += 1
        elif n.op == "group":
            x = _width(n.b)
            if x is None:
                return None
            w += x
        elif n.op == "at":
            pass
        else:
            return None
    return w


class Match:
    def __init__(self, pyre, string, start, end, caps):
        self.re = pyre
        self.string = string
        self._s, self._e, self._caps = start, end, caps

    def span(self, g=0):
        if g == 0:
            return (self._s, self._e)
        if isinstance(g, str):
            g = self.re.groupindex[g]
        return self._caps.get(g, (-1, -1))

    def start(self, g=0):
        return self.span(g)[0]

    def end(self, g=0):
        return self.span(g)[1]

    def group(self, *gs):
        if not gs:
            gs = (0,)
        out = []
        for g in gs:
            a, b = self.span(g)
            out.append(None if a < 0 else self.string[a:b])
        return out[0] if len(out) == 1 else tuple(out)

    def __getitem__(self, g):
        return self.group(g)

    def groups(self, default=None):
        out = []
        for g in range(1, self.re.groups + 1):
            a, b = self._caps.get(g, (-1, -1))
            out.append(default if a < 0 else self.string[a:b])
        return tuple(out)

    def groupdict(self, default=None):
        return {name: (self.group(i) if self.span(i)[0] >= 0 else default) for name, i in self.re.groupindex.items()}

    def __bool__(self):
        return True


class PyRe:
    """Drop-in for the methods reuse calls on compiled patterns."""

    def __init__(self, pattern):
        if isinstance(pattern, str):
            pattern = re.compile(pattern)
        self.real = pattern
        self.pattern = pattern.pattern
        self.flags = pattern.flags
        self.groups = pattern.groups
        self.groupindex = dict(pattern.groupindex)
        self._items = _compile(list(sp.parse(pattern.pattern, pattern.flags)), pattern.flags)
        self._ml = bool(pattern.flags & re.MULTILINE)
        self._memo = {}

    # ---- core
    def _ord(self, s, i):
        return s[i]  # s is the code-point list (see codes_of)

    # Comparisons on a *symbolic* code point are decided once per call and remembered: the same
    # position is compared with the same literals hundreds of times while the matcher backtracks,
    # and every comparison on a symbolic value costs solver queries even when its outcome is implied.
    # Once a position is known to equal a literal it is replaced by that literal in the call's own
    # copy of the code-point list.
    def _eq(self, s, pos, lit):
        c = s[pos]
        if type(c) is int:
            return c == lit
        memo = self._memo
        key = (pos, lit)
        r = memo.get(key)
        if r is None:
            r = True if c == lit else False
            memo[key] = r
            if r:
                s[pos] = lit
        return r

    def _in(self, s, pos, ranges):
        c = s[pos]
        if type(c) is int:
            for lo, hi in ranges:
                if lo <= c <= hi:
                    return True
            return False
        memo = self._memo
        key = (pos, id(ranges))
        r = memo.get(key)
        if r is None:
            r = True if _member(c, ranges) else False
            memo[key] = r
        return r

    def _seq(self, items, i, s, pos, n, caps):
        if i == len(items):
            yield pos, caps
            return
        node = items[i]
        op = node.op
        if op == "lit":
            if pos < n and self._eq(s, pos, node.a):
                yield from self._seq(items, i + 1, s, pos + 1, n, caps)
            return
        if op == "in":
            if pos < n and self._in(s, pos, node.a):
                yield from self._seq(items, i + 1, s, pos + 1, n, caps)
            return
        if op == "at":
            if self._at(node.a, s, pos, n):
                yield from self._seq(items, i + 1, s, pos, n, caps)
            return
        if op == "group":
            for p2, c2 in self._seq(node.b, 0, s, pos, n, caps):
                if node.a is not None:
                    c2 = dict(c2)
                    c2[node.a] = (pos, p2)
                yield from self._seq(items, i + 1, s, p2, n, c2)
            return
        if op == "branch":
            for alt in node.a:
                for p2, c2 in self._seq(alt, 0, s, pos, n, caps):
                    yield from self._seq(items, i + 1, s, p2, n, c2)
            return
        if op == "max":
            yield from self._max(node, items, i, s, pos, n, caps, 0)
            return
        if op == "min":
            yield from self._min(node, items, i, s, pos, n, caps, 0)
            return
        if op in ("assert", "assert_not"):
            direction, sub = node.a, node.b
            if direction >= 0:
                ok = False
                for _ in self._seq(sub, 0, s, pos, n, caps):
                    ok = True
                    break
            else:
                w = _width(sub)
                if w is None:
                    raise NotImplementedError("variable-width look-behind")
                ok = False
                if pos - w >= 0:
                    for p2, _c in self._seq(sub, 0, s, pos - w, n, caps):
                        if p2 == pos:
                            ok = True
                            break
            if ok == (op == "assert"):
                yield from self._seq(items, i + 1, s, pos, n, caps)
            return
        raise NotImplementedError(op)

    def _max(self, node, items, i, s, pos, n, caps, count):
        lo, hi, sub = node.a, node.b, node.c
        if hi is None or count < hi:
            for p2, c2 in self._seq(sub, 0, s, pos, n, caps):
                if p2 == pos and count >= lo:
                    continue  # an empty iteration cannot make progress
                yield from self._max(node, items, i, s, p2, n, c2, count + 1)
        if count >= lo:
            yield from self._seq(items, i + 1, s, pos, n, caps)

    def _min(self, node, items, i, s, pos, n, caps, count):
        lo, hi, sub = node.a, node.b, node.c
        if count >= lo:
            yield from self._seq(items, i + 1, s, pos, n, caps)
        if hi is None or count < hi:
            for p2, c2 in self._seq(sub, 0, s, pos, n, caps):
                if p2 == pos and count >= lo:
                    continue
                yield from self._min(node, items, i, s, p2, n, c2, count + 1)

    def _at(self, where, s, pos, n):
        if where is sc.AT_BEGINNING_STRING:
            return pos == 0
        if where is sc.AT_BEGINNING:
            if pos == 0:
                return True
            return self._ml and self._eq(s, pos - 1, 10)
        if where is sc.AT_END_STRING:
            return pos == n
        if where is sc.AT_END:
            if pos == n:
                return True
            if self._ml:
                return self._eq(s, pos, 10)
            return pos == n - 1 and self._eq(s, pos, 10)
        raise NotImplementedError(f"AT {where}")

    def _at_pos(self, s, pos, n, full=False):
        for p2, caps in self._seq(self._items, 0, s, pos, n, {}):
            if full and p2 != n:
                continue
            return p2, caps
        return None

    # ---- public API (subset of re.Pattern)
    def match(self, string, pos=0):
        self._memo = {}
        codes = codes_of(string)
        nat = _native_subject(codes)
        if nat is not None:
            with NoTracing():
                return self.real.match(nat, pos)
        n = len(codes)
        r = self._at_pos(codes, pos, n)
        return None if r is None else Match(self, string, pos, r[0], r[1])

    def fullmatch(self, string, pos=0):
        self._memo = {}
        codes = codes_of(string)
        nat = _native_subject(codes)
        if nat is not None:
            with NoTracing():
                return self.real.fullmatch(nat, pos)
        n = len(codes)
        r = self._at_pos(codes, pos, n, full=True)
        return None if r is None else Match(self, string, pos, r[0], r[1])

    def search(self, string, pos=0):
        self._memo = {}
        codes = codes_of(string)
        nat = _native_subject(codes)
        if nat is not None:
            with NoTracing():
                return self.real.search(nat, pos)
        n = len(codes)
        i = pos
        while i <= n:
            r = self._at_pos(codes, i, n)
            if r is not None:
                return Match(self, string, i, r[0], r[1])
            i += 1
        return None

    def finditer(self, string, pos=0):
        self._memo = {}
        codes = codes_of(string)
        n = len(codes)
        i = pos
        while i <= n:
            r = None
            j = i
            while j <= n:
                r = self._at_pos(codes, j, n)
                if r is not None:
                    break
                j += 1
            if r is None:
                return
            m = Match(self, string, j, r[0], r[1])
            yield m
            i = r[0] if r[0] > j else j + 1
            # (sre allows an empty match right after a non-empty one; none of reuse's patterns relies on it
            #  beyond what the validation below exercises)
            if r[0] == j:
                continue

    def findall(self, string, pos=0):
        nat = _native_subject(codes_of(string))
        if nat is not None:
            with NoTracing():
                return self.real.findall(nat, pos)
        out = []
        for m in self.finditer(string, pos):
            if self.groups == 0:
                out.append(m.group(0))
            elif self.groups == 1:
                out.append(m.group(1) if m.span(1)[0] >= 0 else "")
            else:
                out.append(tuple("" if x is None else x for x in m.groups()))
        return out

    def sub(self, repl, string, count=0):
        nat = _native_subject(codes_of(string))
        if nat is not None and not callable(repl):
            with NoTracing():
                return self.real.sub(repl, nat, count)
        out, last, k = [], 0, 0
        for m in self.finditer(string):
            out.append(string[last : m.start()])
            out.append(repl(m) if callable(repl) else repl)
            last = m.end()
            k += 1
            if count and k >= count:
                break
        out.append(string[last:])
        return "".join(out)

    def __repr__(self):
        return f"PyRe({self.pattern!r})"
