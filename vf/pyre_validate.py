"""Translator validation for PYRE: the real patterns through `re` and through PyRe on the literal
strings of the repository's own tests plus generated strings. Any disagreement -> harness error."""
import ast
import os
import random
import re

from .pyre import PyRe

REPO = os.environ.get("VERIF_REPO", "/repo")


def harvest_patterns():
    from reuse import comment, extract, header

    pats = {
        "extract._LICENSE_IDENTIFIER_PATTERN": extract._LICENSE_IDENTIFIER_PATTERN,
        "extract._CONTRIBUTOR_PATTERN": extract._CONTRIBUTOR_PATTERN,
        "extract._LICENSEREF_PATTERN": extract._LICENSEREF_PATTERN,
        "header._NEWLINE_PATTERN": header._NEWLINE_PATTERN,
    }
    for i, p in enumerate(extract._COPYRIGHT_PATTERNS):
        pats[f"extract._COPYRIGHT_PATTERNS[{i}]"] = p
    for cls in comment._all_style_classes():
        if cls.SINGLE_LINE_REGEXP is not None:
            pats[f"comment.{cls.__name__}.SINGLE_LINE_REGEXP"] = cls.SINGLE_LINE_REGEXP
    pats["copyright year 1"] = re.compile(r"\d{4}$")
    pats["copyright year 2"] = re.compile(r"\d{4} ?- ?\d{4}$")
    return pats


def test_literals():
    out = set()
    for f in ("tests/test_extract.py", "tests/test_copyright.py", "tests/test_comment.py", "tests/test_header.py"):
        try:
            tree = ast.parse(open(os.path.join(REPO, f)).read())
        except OSError:
            continue
        for node in ast.walk(tree):
            if isinstance(node, ast.Constant) and isinstance(node.value, str) and 0 < len(node.value) < 400:
                out.add(node.value)
                for ln in node.value.splitlines():
                    out.add(ln)
    return sorted(out)


def generated(n, seed):
    from reuse import comment

    rnd = random.Random(seed)
    ends = sorted({c.MULTI_LINE.end for c in comment._all_style_classes() if c.MULTI_LINE.end}) + ['">', "'/>", "] ::", "]::"]
    starts = sorted({c.MULTI_LINE.start for c in comment._all_style_classes() if c.MULTI_LINE.start} | {c.SINGLE_LINE for c in comment._all_style_classes() if c.SINGLE_LINE}) + ["|*", "", " ", "\t"]
    tags = ["SPDX-License-Identifier:", "SPDX-FileCopyrightText:", "SPDX-SnippetCopyrightText:", "SPDX-FileContributor:", "Copyright", "Copyright (C)", "Copyright ©", "©", "(c)", "SPDX-FileCopyrightText: ©", "SPDX-FileCopyrightText: Copyright (c)"]
    vals = ["MIT", "GPL-3.0-or-later", "2020 Jane Doe", "2019-2021, Acme Inc. <a@b.c>", "2019 - 2021 X", "Jane", "", "C#", "a }", "x :)", "1999", "12345 y", "2020,  Z", "2020\u00a0Jane", "٢٠٢٠ Jane"]
    alpha = "a1 \t#*/-}{)(]:>\"'\\%=.@\u00a0\u2028©é٣"
    out = []
    for _ in range(n):
        k = rnd.random()
        if k < 0.6:
            s = rnd.choice(starts) + rnd.choice(["", " ", "\t", "  "]) + rnd.choice(tags) + rnd.choice(["", " ", "  ", "\t"]) + rnd.choice(vals) + rnd.choice(["", " ", "  "]) + rnd.choice(ends + ["", "", ""]) + rnd.choice(["", " ", rnd.choice(ends)])
        elif k < 0.8:
            s = "".join(rnd.choice(alpha) for _ in range(rnd.randint(0, 12)))
        else:
            s = "\n".join(rnd.choice(starts) + " " + rnd.choice(tags) + " " + rnd.choice(vals) + rnd.choice(ends + [""]) for _ in range(rnd.randint(1, 3)))
        out.append(s)
    return out


def _m(m):
    if m is None:
        return None
    return (m.span(), m.groups(), m.groupdict())


def validate(n_generated=3000, seed=0):
    """-> (n_comparisons, disagreements[:10])"""
    pats = harvest_patterns()
    strings = test_literals() + generated(n_generated, seed)
    bad = []
    n = 0
    for name, p in pats.items():
        q = PyRe(p)
        for s in strings:
            for meth in ("search", "match", "fullmatch", "findall"):
                a = getattr(p, meth)(s)
                b = getattr(q, meth)(s)
                if meth != "findall":
                    a, b = _m(a), _m(b)
                n += 1
                if a != b:
                    bad.append((name, meth, s, a, b))
                    if len(bad) >= 10:
                        return n, bad
    return n, bad
