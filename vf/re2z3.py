"""sre parse tree of a *real* compiled pattern -> z3 regular expression (RZ3).

The pattern object is always taken from the imported reuse module; this module
only converts.  Python specifics are encoded: `.` without DOTALL excludes LF, a
final `$` (no MULTILINE) also accepts one trailing LF, `.match` anchors only at
the start, `.search` nowhere.  Anything not understood raises Unsupported (the
caller reports the obligation as inconclusive, never as success).
"""
import re
import sys
import time

import z3

try:  # Python >= 3.11
    from re import _constants as sc
    from re import _parser as sp
except ImportError:  # pragma: no cover
    import sre_constants as sc
    import sre_parse as sp

MAXCH = 0x2FFFF  # z3's character range
_S = z3.StringSort()
_RS = z3.ReSort(_S)


class Unsupported(Exception):
    pass


def _ch(c):
    if c > MAXCH:
        raise Unsupported(f"code point {c:#x} beyond z3 range")
    return z3.StringVal(chr(c)) if c != 0x5C else z3.StringVal("\\")


def lit(s):
    """z3 regex for the literal python string s."""
    if s == "":
        return z3.Re(z3.StringVal(""))
    return z3.Re(z3.StringVal(s))


def rng(lo, hi):
    hi = min(hi, MAXCH)
    if lo == hi:
        return z3.Re(_ch(lo))
    return z3.Range(_ch(lo), _ch(hi))


ALLCHAR = z3.AllChar(_RS)
FULL = z3.Full(_RS)
EMPTY = z3.Empty(_RS)
EPS = z3.Re(z3.StringVal(""))
LF = z3.Re(z3.StringVal("\n"))


def union(xs):
    xs = list(xs)
    if not xs:
        return EMPTY
    if len(xs) == 1:
        return xs[0]
    return z3.Union(*xs)


def concat(xs):
    xs = list(xs)
    if not xs:
        return EPS
    if len(xs) == 1:
        return xs[0]
    return z3.Concat(*xs)


def inter(*xs):
    xs = list(xs)
    if len(xs) == 1:
        return xs[0]
    return z3.Intersect(*xs)


def comp(x):
    return z3.Complement(x)


def char_class(pred):
    """Ranges of code points (<= MAXCH) satisfying pred -> z3 regex union."""
    out = []
    start = None
    for c in range(0, MAXCH + 2):
        ok = c <= MAXCH and not (0xD800 <= c <= 0xDFFF) and pred(chr(c))
        if ok and start is None:
            start = c
        elif not ok and start is not None:
            out.append((start, c - 1))
            start = None
    return out


_CAT_CACHE = {}


def _category(cat):
    if cat in _CAT_CACHE:
        return _CAT_CACHE[cat]
    if cat in (sc.CATEGORY_SPACE, sc.CATEGORY_NOT_SPACE):
        r = char_class(lambda ch: ch.isspace())
        neg = cat == sc.CATEGORY_NOT_SPACE
    elif cat in (sc.CATEGORY_DIGIT, sc.CATEGORY_NOT_DIGIT):
        r = char_class(lambda ch: ch.isdecimal())
        neg = cat == sc.CATEGORY_NOT_DIGIT
    elif cat in (sc.CATEGORY_WORD, sc.CATEGORY_NOT_WORD):
        r = char_class(lambda ch: ch.isalnum() or ch == "_")
        neg = cat == sc.CATEGORY_NOT_WORD
    else:
        raise Unsupported(f"category {cat}")
    _CAT_CACHE[cat] = (r, neg)
    return r, neg


def _ranges_to_re(ranges):
    return union(rng(a, b) for a, b in ranges)


def _negate_ranges(ranges):
    ranges = sorted(ranges)
    out = []
    cur = 0
    for a, b in ranges:
        if a > cur:
            out.append((cur, a - 1))
        cur = max(cur, b + 1)
    if cur <= MAXCH:
        out.append((cur, MAXCH))
    return out


def _in_ranges(items, flags):
    neg = False
    ranges = []
    for op, av in items:
        if op is sc.NEGATE:
            neg = True
        elif op is sc.LITERAL:
            ranges.append((av, av))
        elif op is sc.RANGE:
            ranges.append((av[0], av[1]))
        elif op is sc.CATEGORY:
            r, n = _category(av)
            ranges.extend(_negate_ranges(r) if n else r)
        else:
            raise Unsupported(f"IN item {op}")
    if flags & re.IGNORECASE:
        raise Unsupported("IGNORECASE")
    # merge
    ranges.sort()
    merged = []
    for a, b in ranges:
        if merged and a <= merged[-1][1] + 1:
            merged[-1] = (merged[-1][0], max(merged[-1][1], b))
        else:
            merged.append((a, b))
    return _negate_ranges(merged) if neg else merged


class Conv:
    """Convert a parsed, anchor-free item sequence to a z3 regex."""

    def __init__(self, flags):
        self.flags = flags

    def seq(self, items):
        return concat([self.node(op, av) for op, av in items])

    def node(self, op, av):
        if op is sc.AT:
            raise Unsupported(f"anchor {av} in the middle of the pattern")
        if op is sc.LITERAL:
            if self.flags & re.IGNORECASE:
                raise Unsupported("IGNORECASE")
            return z3.Re(_ch(av))
        if op is sc.NOT_LITERAL:
            return _ranges_to_re(_negate_ranges([(av, av)]))
        if op is sc.ANY:
            if self.flags & re.DOTALL:
                return ALLCHAR
            return _ranges_to_re(_negate_ranges([(10, 10)]))
        if op is sc.IN:
            return _ranges_to_re(_in_ranges(av, self.flags))
        if op is sc.BRANCH:
            return union(self.seq(sub) for sub in av[1])
        if op is sc.SUBPATTERN:
            _g, add, dele, sub = av
            if add or dele:
                raise Unsupported("inline flags")
            return self.seq(sub)
        if op in (sc.MAX_REPEAT, sc.MIN_REPEAT) or (hasattr(sc, "POSSESSIVE_REPEAT") and op is sc.POSSESSIVE_REPEAT):
            lo, hi, sub = av
            body = self.seq(sub)
            if hi is sc.MAXREPEAT or hi == sc.MAXREPEAT:
                if lo == 0:
                    return z3.Star(body)
                if lo == 1:
                    return z3.Plus(body)
                return z3.Concat(z3.Loop(body, lo, lo), z3.Star(body))
            if lo == 0 and hi == 1:
                return z3.Option(body)
            return z3.Loop(body, lo, hi)
        raise Unsupported(f"op {op}")


_BEGIN = (sc.AT_BEGINNING, sc.AT_BEGINNING_STRING)
_END = (sc.AT_END, sc.AT_END_STRING)


def _strip(items, which):
    """Remove a leading (which='begin') / trailing (which='end') anchor, looking
    through groups and branches.  -> (items', kind) where kind is None (no
    anchor), or the anchor constant.  Mixed alternatives are refused."""
    items = list(items)
    if not items:
        return items, None
    idx = 0 if which == "begin" else -1
    op, av = items[idx]
    want = _BEGIN if which == "begin" else _END
    if op is sc.AT and av in want:
        rest = items[1:] if which == "begin" else items[:-1]
        rest2, again = _strip(rest, which)  # `^^` / `$$`
        return rest2, av
    if op is sc.SUBPATTERN:
        g, add, dele, sub = av
        sub2, kind = _strip(sub, which)
        if kind is None:
            return items, None
        new = (sc.SUBPATTERN, (g, add, dele, sub2))
        return ([new] + items[1:] if which == "begin" else items[:-1] + [new]), kind
    if op is sc.BRANCH:
        subs, kinds = [], set()
        for sub in av[1]:
            s2, k = _strip(sub, which)
            subs.append(s2)
            kinds.add(k)
        if kinds == {None}:
            return items, None
        if len(kinds) != 1:
            raise Unsupported("alternatives disagree about an anchor")
        new = (sc.BRANCH, (av[0], subs))
        return ([new] + items[1:] if which == "begin" else items[:-1] + [new]), kinds.pop()
    return items, None


def language(pattern, mode="match", lf_free=False):
    """z3 regex of all subject strings s for which pattern.<mode>(s) succeeds.

    mode: 'match' | 'fullmatch' | 'search'.  lf_free: the subject is known to
    hold no LF (then `^`/`$` are plain anchors even under MULTILINE).
    """
    if isinstance(pattern, str):
        pattern = re.compile(pattern)
    flags = pattern.flags
    items = list(sp.parse(pattern.pattern, flags))
    try:
        return _language_items(items, flags, mode, lf_free)
    except Unsupported:
        # `^A|B|C$` - a top-level alternation whose alternatives carry different anchors: each
        # alternative is an independent pattern as far as *whether* the subject matches is concerned
        if len(items) == 1 and items[0][0] is sc.BRANCH:
            return union(_language_items(list(sub), flags, mode, lf_free) for sub in items[0][1][1])
        raise


def _language_items(items, flags, mode, lf_free):
    items, b = _strip(items, "begin")
    items, e = _strip(items, "end")
    body = Conv(flags).seq(items)
    ml = bool(flags & re.MULTILINE)
    # what may follow the matched body in the subject
    if e is None:
        tail = None if mode == "fullmatch" else FULL
    elif mode == "fullmatch" or lf_free:
        tail = None
    elif e is sc.AT_END_STRING:
        tail = None
    elif ml:
        tail = z3.Option(z3.Concat(LF, FULL))
    else:
        tail = z3.Option(LF)
    # what may precede it
    if mode in ("match", "fullmatch"):
        head = None
    elif b is None:
        head = FULL
    elif lf_free or not ml or b is sc.AT_BEGINNING_STRING:
        head = None
    else:
        head = z3.Option(z3.Concat(FULL, LF))
    parts = [p for p in (head, body, tail) if p is not None]
    return concat(parts)


# ------------------------------------------------------------------ queries
class Q:
    """Query helper with accounting."""

    def __init__(self, timeout_ms=20000):
        self.timeout_ms = timeout_ms
        self.n = 0
        self.secs = 0.0

    def witness(self, regex, extra=None):
        """-> ('sat', string) | ('unsat', None) | ('unknown', None)"""
        s = z3.Solver()
        s.set("timeout", self.timeout_ms)
        x = z3.String("x")
        s.add(z3.InRe(x, regex))
        if extra is not None:
            s.add(extra(x))
        t = time.time()
        r = s.check()
        self.secs += time.time() - t
        self.n += 1
        if str(r) == "sat":
            return "sat", _pystr(s.model()[x])
        return str(r), None

    def member(self, string, regex):
        s = z3.Solver()
        s.set("timeout", self.timeout_ms)
        s.add(z3.InRe(z3.StringVal(string), regex))
        t = time.time()
        r = s.check()
        self.secs += time.time() - t
        self.n += 1
        return str(r)

    def diff(self, a, b, dom=None):
        """Some string in a but not in b (within dom)."""
        parts = [a, comp(b)]
        if dom is not None:
            parts.insert(0, dom)
        return self.witness(inter(*parts))


def _pystr(v):
    if v is None:
        return ""
    s = v.as_string()
    # z3 escapes non-printables as \u{..}
    def rep(m):
        return chr(int(m.group(1), 16))

    return re.sub(r"\\u\{([0-9a-fA-F]+)\}", rep, s)


def validate(pattern, mode, regex, strings, q, lf_free=False):
    """Translator validation: python's verdict vs z3 membership on concrete strings.
    Returns list of disagreements."""
    if isinstance(pattern, str):
        pattern = re.compile(pattern)
    bad = []
    fn = getattr(pattern, mode)
    for s in strings:
        if lf_free and "\n" in s:
            continue
        if any(ord(c) > MAXCH or 0xD800 <= ord(c) <= 0xDFFF for c in s):
            continue
        py = fn(s) is not None
        zz = q.member(s, regex)
        if zz not in ("sat", "unsat"):
            bad.append((s, py, zz))
        elif py != (zz == "sat"):
            bad.append((s, py, zz))
    return bad
