"""./check <ID> [--tier quick|thorough] [--replay path]"""
import argparse
import importlib
import json
import os
import sys
import traceback

from . import core, load


def main():
    ap = argparse.ArgumentParser()
    ap.add_argument("pid")
    ap.add_argument("--tier", default=os.environ.get("VERIF_TIER", "quick"), choices=["quick", "thorough"])
    ap.add_argument("--replay")
    args = ap.parse_args()
    seed = int(os.environ.get("VERIF_SEED", "0") or 0)
    load.ensure()
    mod = importlib.import_module(f"vf.props.{args.pid}")
    if args.replay:
        with open(args.replay) as fp:
            rec = json.load(fp)
        fails = mod.replay(rec["replay"])
        print(json.dumps({"property": args.pid, "key": rec.get("key"), "still_fails": bool(fails)}))
        if fails:
            print(f"VIOLATION property={args.pid} replay={args.replay}")
            return 1
        return 0
    ctx = core.Ctx(args.pid, args.tier, seed)
    ctx.engines = core.engine_versions()
    try:
        if hasattr(mod, "replay"):
            ctx.reestablish_known(mod.replay)
        kw = mod.run(ctx) or {}
    except core.HarnessError as e:
        ctx.harness_error(str(e))
        kw = {}
    except Exception as e:  # noqa
        traceback.print_exc()
        ctx.harness_error(f"check crashed: {e!r}")
        kw = {}
    return ctx.finish(**kw)


if __name__ == "__main__":
    sys.exit(main())
