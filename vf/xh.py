"""XH — CrossHair (symbolic execution with z3) on harness functions that call the real code.

A *condition* = (harness file, function name, params).  The harness file is an
ordinary module under vf/harness/; it reads its parameters from the environment
variable VF_PARAMS (JSON), imports the real reuse modules from /repo/src, rebinds
whatever has to be stubbed, and defines
    def _ob(...):      '''pre: ...  post: _'''     -> bool (the property)
    def _ob_reach(...):'''pre: ...  post: False''' -> same body (reachability twin)
and, for replay,  `explain(*args) -> dict`  describing the concrete case.

Each condition and each twin runs in its own OS process (`crosshair check
--report_all`), 16 at a time.  Verdicts are kept apart:
  confirmed       "Confirmed over all paths."  (and the twin was reachable)
  counterexample  concrete arguments; re-run concretely in a fresh process first
  inconclusive    Not confirmed / Unable to meet precondition / timeout / crash
"""
import ast
import json
import os
import re
import subprocess
import sys
import time
from concurrent.futures import ThreadPoolExecutor

ROOT = os.path.dirname(os.path.dirname(os.path.abspath(__file__)))
SCRATCH = os.path.join(ROOT, ".work", "cwd")  # working directory of every harness process: anything a mutated
os.makedirs(SCRATCH, exist_ok=True)             # program writes with a relative path lands here, not in /verif
HARNESS_DIR = os.path.join(ROOT, "vf", "harness")
PY = sys.executable
JOBS = int(os.environ.get("VERIF_JOBS", "16"))

_LINE_CACHE = {}


def _line_of(path, func):
    key = (path, func)
    if key not in _LINE_CACHE:
        with open(path) as fp:
            tree = ast.parse(fp.read())
        for node in ast.walk(tree):
            if isinstance(node, ast.FunctionDef):
                _LINE_CACHE[(path, node.name)] = node.lineno + 1
    return _LINE_CACHE[key]


_CALL_RE = re.compile(r"when calling (\w+)\((.*)$")


def _run_crosshair(path, func, params, timeout, extra_env=None):
    line = _line_of(path, func)
    env = dict(os.environ)
    env["VF_PARAMS"] = json.dumps(params)
    env["PYTHONPATH"] = ROOT + os.pathsep + env.get("PYTHONPATH", "")
    env["PYTHONHASHSEED"] = env.get("VF_HASHSEED", "0")
    if extra_env:
        env.update(extra_env)
    cmd = [
        PY,
        "-m",
        "crosshair",
        "check",
        "--report_all",
        "--per_condition_timeout",
        str(timeout),
        "--per_path_timeout",
        str(max(10, timeout / 4)),
        f"{path}:{line}",
    ]
    t0 = time.time()
    try:
        p = subprocess.run(cmd, capture_output=True, text=True, env=env, timeout=timeout * 1.5 + 60, cwd=SCRATCH)
        out = p.stdout + p.stderr
        rc = p.returncode
    except subprocess.TimeoutExpired as e:
        out = (e.stdout or b"").decode(errors="replace") if isinstance(e.stdout, bytes) else (e.stdout or "")
        out += "\n<killed: wall timeout>"
        rc = -9
    secs = time.time() - t0
    return rc, out, secs


def _parse(out):
    """-> (kind, detail) kind in confirmed|counterexample|notconfirmed|nopre|error"""
    for ln in out.splitlines():
        if ": error: " in ln:
            m = _CALL_RE.search(ln)
            if m:
                rest = m.group(2).rstrip()
                ret = None
                if ") (which returns " in rest:
                    i = rest.rindex(") (which returns ")
                    ret = rest[i + len(") (which returns ") : -1]
                    rest = rest[:i]
                elif rest.endswith(")"):
                    rest = rest[:-1]
                return "counterexample", {"func": m.group(1), "args": rest, "returns": ret, "line": ln.split(": error: ", 1)[1]}
            return "error", ln
    for ln in out.splitlines():
        if "Confirmed over all paths" in ln:
            return "confirmed", None
    for ln in out.splitlines():
        if "Unable to meet precondition" in ln:
            return "nopre", None
        if "Not confirmed" in ln:
            return "notconfirmed", None
    return "error", out.strip()[-400:]


def concrete(path, func, params, args_src, timeout=120):
    """Re-run the harness function concretely (fresh process, no CrossHair) on the
    counterexample's arguments.  -> {"result": bool|None, "explain": {...}, "error": str|None}"""
    env = dict(os.environ)
    env["VF_PARAMS"] = json.dumps(params)
    env["PYTHONPATH"] = ROOT + os.pathsep + env.get("PYTHONPATH", "")
    env["PYTHONHASHSEED"] = env.get("VF_HASHSEED", "0")
    code = (
        "import sys, json, runpy\n"
        f"ns = runpy.run_path({path!r}, run_name='vf_harness_concrete')\n"
        "cap = lambda *a, **k: (a, k)\n"
        f"a, k = eval('cap(' + {args_src!r} + ')', dict(ns, cap=cap))\n"
        "res = {'result': None, 'explain': None, 'error': None}\n"
        "try:\n"
        f"    res['result'] = bool(ns[{func!r}](*a, **k))\n"
        "except BaseException as e:\n"
        "    res['error'] = repr(e)\n"
        "try:\n"
        f"    ex = (ns.get('EXPLAIN') or {{}}).get({func!r}) or ns.get('explain')\n"
        "    if ex: res['explain'] = ex(*a, **k)\n"
        "except BaseException as e:\n"
        "    res['explain'] = {'explain_error': repr(e)}\n"
        "print('VFRESULT ' + json.dumps(res, default=str))\n"
    )
    try:
        p = subprocess.run([PY, "-c", code], capture_output=True, text=True, env=env, timeout=timeout, cwd=SCRATCH)
    except subprocess.TimeoutExpired:
        return {"result": None, "explain": None, "error": "concrete replay timed out"}
    for ln in p.stdout.splitlines():
        if ln.startswith("VFRESULT "):
            return json.loads(ln[len("VFRESULT ") :])
    return {"result": None, "explain": None, "error": (p.stdout + p.stderr)[-600:]}


class Cond:
    def __init__(self, name, harness, func="_ob", params=None, timeout=60, twin="_ob_reach", group=None):
        self.name = name
        self.path = harness if os.path.isabs(harness) else os.path.join(HARNESS_DIR, harness)
        self.func = func
        self.params = params or {}
        self.timeout = timeout
        self.twin = twin
        self.group = group
        # results
        self.kind = None
        self.detail = None
        self.secs = 0.0
        self.twin_ok = None
        self.concrete = None


def _do(cond):
    rc, out, secs = _run_crosshair(cond.path, cond.func, cond.params, cond.timeout)
    cond.kind, cond.detail = _parse(out)
    cond.secs = secs
    cond.raw = out[-1500:]
    if cond.kind == "counterexample":
        cond.concrete = concrete(cond.path, cond.func, cond.params, cond.detail["args"])
    if cond.kind == "confirmed" and cond.twin:
        # the twin stops at the first path that reaches the end, so a generous budget costs nothing when all is well
        rc2, out2, secs2 = _run_crosshair(cond.path, cond.twin, cond.params, max(60, min(cond.timeout, 300)))
        k2, d2 = _parse(out2)
        cond.secs += secs2
        cond.twin_kind = k2
        cond.twin_ok = k2 == "counterexample"
        cond.twin_raw = out2[-600:]
    return cond


def run_all(conds, jobs=None):
    jobs = jobs or JOBS
    with ThreadPoolExecutor(max_workers=jobs) as ex:
        return list(ex.map(_do, conds))


def settle(ctx, conds, confirm, engine="XH"):
    """Run conditions and turn them into obligations.

    confirm(cond, explain) -> None | (key, what, replay_dict)
      called for a counterexample that reproduced concretely in the harness; it must
      re-run the case against the real, un-stubbed code where the obligation allows
      and return the violation (or None if it does not reproduce there -> harness error).
    """
    t0 = time.time()
    run_all(conds)
    for c in conds:
        sample = {"condition": c.name, "harness": os.path.relpath(c.path, ROOT) + "::" + c.func, "params": c.params, "verdict": c.kind}
        if c.kind == "confirmed":
            if c.twin and not c.twin_ok:
                if getattr(c, "twin_kind", None) == "confirmed":
                    # `post: False` confirmed over all paths: no path reaches the end - the condition is vacuous
                    ctx.harness_error(f"vacuous condition {c.name}: no path of the reachability twin reaches the end ({getattr(c, 'twin_raw', '')[-200:]!r})")
                    ctx.ob(c.name, engine, "inconclusive", secs=c.secs, detail="vacuous (twin confirmed unreachable)")
                else:
                    # the twin ran out of budget: reachability not witnessed -> not counted as discharged
                    ctx.ob(c.name, engine, "inconclusive", secs=c.secs, detail=f"confirmed, but the reachability twin was inconclusive ({getattr(c, 'twin_kind', '?')})")
            else:
                ctx.ob(c.name, engine, "holds", secs=c.secs, sample=sample)
        elif c.kind == "counterexample":
            cc = c.concrete or {}
            if cc.get("error") or cc.get("result") is not False:
                # does not reproduce concretely inside the harness itself
                ctx.harness_error(f"counterexample of {c.name} does not reproduce concretely: args=({c.detail['args']}) -> {cc}")
                ctx.ob(c.name, engine, "inconclusive", secs=c.secs, detail="non-reproducing counterexample")
                continue
            v = confirm(c, cc.get("explain") or {})
            if v is None:
                ctx.harness_error(f"counterexample of {c.name} reproduces in the harness but not against the real code: {cc.get('explain')}")
                ctx.ob(c.name, engine, "inconclusive", secs=c.secs, detail="counterexample not confirmed on real code")
                continue
            key, what, rep = v
            st = ctx.violation(key, what, rep)
            sample["counterexample"] = cc.get("explain")
            ctx.ob(c.name, engine, st, secs=c.secs, detail=what, sample=sample)
        else:
            why = {"notconfirmed": "Not confirmed (time budget exhausted before all paths were explored)", "nopre": "Unable to meet precondition", "error": "crosshair error"}[c.kind]
            det = why if c.kind != "error" else f"{why}: {str(c.detail)[-300:]}"
            ctx.ob(c.name, engine, "inconclusive", secs=c.secs, detail=det)
    return time.time() - t0


if __name__ == "__main__":  # probe: python -m vf.xh <harness.py> <func> '<params json>' [timeout]
    c = Cond("probe", sys.argv[1], sys.argv[2], json.loads(sys.argv[3] if len(sys.argv) > 3 else "{}"), timeout=int(sys.argv[4]) if len(sys.argv) > 4 else 60, twin=None)
    _do(c)
    print(c.kind, round(c.secs, 1), c.detail if c.kind != "confirmed" else "")
    if c.concrete:
        print(json.dumps(c.concrete, indent=1)[:3000])
